#!/bin/bash
# tools/sweep.sh <tier> "<seeds>" [ids...]  - runs checks on the unchanged tree and prints one verdict line per run
tier=${1:-quick}; seeds=${2:-0}; shift 2 || true
ids=${@:-C01 C02 C03 C04 C05 C06 C07 C08 C09 C10 C11 C12 C13 C14 C15 C16 C17 C18 C19 C20}
cd "$(dirname "$0")/.."
for s in $seeds; do
  for id in $ids; do
    t0=$(date +%s)
    out=$(VERIF_SEED=$s ./check $id --tier $tier 2>&1); rc=$?
    echo "seed=$s $id rc=$rc $(( $(date +%s) - t0 ))s :: $(echo "$out" | grep -E "VIOLATION|INCONCLUSIVE|KNOWN-FINDING|key=" | head -4 | cut -c1-260 | tr '\n' '|')"
  done
done
