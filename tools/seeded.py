#!/venv/bin/python
"""Run the checks against the independently written breaking changes kept under /verif/seeded/<id>/.

Each seeded change has patch.diff (paths a/hdc/...), demo.py (imports the tree named by $HDC_TREE, default /repo; exits
non-zero when the property is violated) and meta.json.  A scratch copy of /repo/hdc is patched under /tmp/verif-seeded/<id>
(removed afterwards); /repo itself is never touched.

usage: tools/seeded.py run [--only id,id] [--tier quick] [--tests] [--demo] [--jobs N]
"""

from __future__ import annotations

import argparse
import json
import os
import shutil
import subprocess
import time
from concurrent.futures import ThreadPoolExecutor
from pathlib import Path

ROOT = Path(__file__).resolve().parent.parent
SEEDED = ROOT / "seeded"
BASE = Path(f"/tmp/verif-seeded-{os.getpid()}")  # one scratch root per invocation: concurrent runs must not remove each other's trees


def prepare(sid):
    d = BASE / sid
    if d.exists():
        shutil.rmtree(d)
    d.mkdir(parents=True)
    shutil.copytree("/repo/hdc", d / "hdc", ignore=shutil.ignore_patterns("__pycache__"))
    p = subprocess.run(["patch", "-p1", "-s", "-d", str(d), "-i", str(SEEDED / sid / "patch.diff")], capture_output=True, text=True)
    if p.returncode != 0:
        # the working tree has moved on (later fix: commits): fall back to the commit the change was written against
        meta = json.loads((SEEDED / sid / "meta.json").read_text())
        base = meta.get("base_commit")
        if not base:
            raise SystemExit(f"{sid}: patch does not apply to the current tree and no base_commit is recorded: {p.stdout[-300:]}")
        shutil.rmtree(d / "hdc")
        tar = subprocess.run(["git", "-C", "/repo", "archive", base, "hdc"], capture_output=True, check=True).stdout
        subprocess.run(["tar", "-x", "-C", str(d)], input=tar, check=True)
        p = subprocess.run(["patch", "-p1", "-s", "-d", str(d), "-i", str(SEEDED / sid / "patch.diff")], capture_output=True, text=True)
        if p.returncode != 0:
            raise SystemExit(f"{sid}: patch does not apply to its base commit {base}: {p.stdout[-300:]}")
        (d / "BASED_ON").write_text(base)
    return d


def run_one(sid, tier, tests, demo):
    meta = json.loads((SEEDED / sid / "meta.json").read_text())
    d = prepare(sid)
    out = {"id": sid, "property": meta["property"]}
    if (d / "BASED_ON").exists():
        out["tree"] = "base commit " + (d / "BASED_ON").read_text()
    try:
        env0 = dict(os.environ, PYTHONDONTWRITEBYTECODE="1")
        if demo:
            p = subprocess.run(["/venv/bin/python", str(SEEDED / sid / "demo.py")], env=dict(env0, HDC_TREE=str(d)), cwd=str(d), capture_output=True, text=True, timeout=900)
            p0 = subprocess.run(["/venv/bin/python", str(SEEDED / sid / "demo.py")], env=dict(env0, HDC_TREE="/repo"), cwd="/tmp", capture_output=True, text=True, timeout=900)
            out["demo_with_change_rc"] = p.returncode
            out["demo_on_repo_rc"] = p0.returncode
        if tests:
            p = subprocess.run(["/venv/bin/python", "-m", "pytest", "-q", "-p", "no:cacheprovider", "--rootdir", str(d), "/repo/tests"],
                               cwd=str(d), env=dict(env0, PYTHONPATH=str(d)), capture_output=True, text=True, timeout=1800)
            out["tests"] = "pass" if p.returncode == 0 else "FAIL: " + (p.stdout.strip().splitlines() or ["?"])[-1][:100]
        for prop in meta.get("checks", [meta["property"]]):
            t0 = time.time()
            env = dict(os.environ, VERIF_REPO=str(d), VERIF_OUT=str(d / "out"), VERIF_NPROC=os.environ.get("VERIF_NPROC", "8"))
            p = subprocess.run([str(ROOT / "check"), prop, "--tier", tier], cwd=str(ROOT), env=env, capture_output=True, text=True, timeout=7200)
            keys = [ln.split("key=")[1].split()[0] for ln in p.stdout.splitlines() if ln.strip().startswith("key=")]
            out[prop] = {"rc": p.returncode, "keys": keys[:6], "s": round(time.time() - t0)}
            if p.returncode == 2:
                out[prop]["inconclusive"] = [ln[:200] for ln in p.stdout.splitlines() if ln.startswith("INCONCLUSIVE")][:2]
    finally:
        shutil.rmtree(d, ignore_errors=True)
    return out


def main():
    ap = argparse.ArgumentParser()
    ap.add_argument("cmd", choices=["run", "list"])
    ap.add_argument("--only")
    ap.add_argument("--tier", default="quick")
    ap.add_argument("--tests", action="store_true")
    ap.add_argument("--demo", action="store_true")
    ap.add_argument("--jobs", type=int, default=2)
    a = ap.parse_args()
    ids = sorted(p.name for p in SEEDED.iterdir() if (p / "meta.json").exists()) if SEEDED.exists() else []
    if a.only:
        ids = [i for i in ids if i in a.only.split(",")]
    if a.cmd == "list":
        for i in ids:
            m = json.loads((SEEDED / i / "meta.json").read_text())
            print(i, m["property"], "|", m.get("summary", "")[:120])
        return
    try:
        with ThreadPoolExecutor(a.jobs) as ex:
            for r in ex.map(lambda i: run_one(i, a.tier, a.tests, a.demo), ids):
                props = [k for k in r if k.startswith("C") and isinstance(r[k], dict)]
                caught = any(r[k]["rc"] == 1 for k in props)
                print(("CAUGHT " if caught else "MISSED ") + json.dumps(r), flush=True)
    finally:
        shutil.rmtree(BASE, ignore_errors=True)


if __name__ == "__main__":
    main()
