#!/venv/bin/python
"""Writes MANIFEST.json from the table below (one entry per property; only built checks are claimed)."""

import json
from pathlib import Path

ROOT = Path(__file__).resolve().parent.parent

BASELINE = (
    "cd /repo && /venv/bin/python -m pytest -ra -q -p no:cacheprovider --timeout=900 "
    "--continue-on-collection-errors"
)

# id -> (technique, level text, level note, design ref)
EXPL = "held on the executions observed (counts in the evidence), not a proof"
CHECKS = {
    "C01": ("exact-rational execution of the kernel's code object + residual oracle; compiled-vs-exact float64 monitor classified by condition number; settrace state tap on the LDL' pivots; 120-digit (mpmath) execution of the same code object with residual oracle for long axes",
            "The unchanged code object of ws2d is executed on Fractions and the residual (W+lam D'D)z - Wy, assembled from the definition, must be exactly zero for every executed (n, y, w, lam): all 0/1 weight patterns for n=4..10 and structured/random cases to n=150; the compiled float64 result is compared with the exact solution (1e-6) up to n=400. For n = 512..4000 the code object runs on 120-digit floats and the residual must vanish to 80 digits. " + EXPL,
            "Fraction arithmetic; numpy eigvalsh for the condition number used to classify exceedances (known finding C01:ill-conditioned); identity is per executed case, not for symbolic n", "DESIGN.md §3 C01"),
    "C02": ("metamorphic pair monitor on the real kernels (placeholder re-encodings incl. NaN/inf) + threshold classes + gap-fill oracle",
            "Each (series, mask) is run through all nine smoother configurations under 4-9 placeholder encodings; band and lambda must be identical, gap cells must carry the independently solved curve, and both sides of each valid-count threshold are observed. " + EXPL,
            "placeholders never collide with valid data; differences are excused only when the curve leaves int16 (outside the claim)", "DESIGN.md §3 C02"),
    "C03": ("boundary monitor with two reference models (replica on the compiled core, independent LAPACK solve) on gufuncs and accessor",
            "ws2dgu/ws2dpgu/whits outputs are compared bit-for-bit with a replica of the stated algorithm on the repository's ws2d and, with a measured tie tolerance, with an independent banded-Cholesky solve, over thousands of series/lambda/p incl. gaps, lambda=0, sgrid with -inf, all dim orders. " + EXPL,
            "C01 for the core solver in tier 1; SciPy LAPACK in tier 2; int16-range exclusion counted", "DESIGN.md §3 C03"),
    "C04": ("boundary monitor: midpoint/optimality oracles (replica + dense V-curve), self-consistency against the real fixed-lambda kernels, grid-choice differential incl. prange driver",
            "Reported lambda must be a grid midpoint, minimise the recomputed V-curve (two solvers, tie rules), the band must equal ws2dgu/ws2dpgu at that lambda bit-for-bit, and ws2doptvplc / ws2doptvplc_tyx must use the documented grid for every lc incl. NaN and 0.5+ulp. " + EXPL,
            "criterion-degenerate cases (noise-level V-curve) only held to midpoint/self-consistency and counted", "DESIGN.md §3 C04"),
    "C05": ("boundary monitor + settrace state tap on the interpreted kernel (MAD base, final robust weights), degenerate-input classes, compiled-vs-interpreted differential; broadcast screening of the real robust kernel selects rare executions for the tapped oracle",
            "Non-robust: grid membership, GCV optimality (two solvers), band == fixed-lambda kernel. Robust: lambda on grid, MAD taken over valid weighted cells (tapped), final weights finite/in [0,1]/zero on gaps/>=2 positive, band is the curve of exactly those weights, constant/linear/flat-with-spikes inputs not zeroed, compiled == interpreted. " + EXPL,
            "tap reads locals of the interpreted run of the same code object; grids restricted to lambda in 10**[-6,8] (C01 range)", "DESIGN.md §3 C05"),
    "C06": ("metamorphic pair monitors (offset, reversal, linear series) over all nine configurations with measured rounding-tie rule",
            "Pairs of real kernel runs on (y,nodata)/(y+c,nodata+c)/reversed y and exactly linear series; a +-1 difference is accepted only where the unrounded curves (replica or tapped) sit on a rounding tie, a different lambda only at a recomputed criterion tie. " + EXPL,
            "ill-conditioned pairs (curve disagreement >= 0.05) and int16-range exclusions are counted, not compared", "DESIGN.md §3 C06"),
    "C07": ("boundary monitor against an independent SciPy (thorough: mpmath) evaluation of the definition with an interval oracle for the fit statistic",
            "gammafit/gammastd/gammastd_yxt/gammastd_grp/spi outputs for int16/float32/float64 pixels are compared cell by cell with Phi^-1(p0+(1-p0)G(x;alpha,beta)) from an independent ML fit; admissible perturbations of the fit statistic (single-precision logs, Brent tolerance) define the accepted interval. " + EXPL,
            "SciPy special functions (shared family with the code) cross-checked by mpmath in the thorough tier; |SPI|>7 left to C08", "DESIGN.md §3 C07"),
    "C08": ("boundary monitors (order, saturation, NaN, nodata, isolation) on hostile pixels and mixed cubes; exceptions observed per call",
            "Outliers up to 1e6x / down to 1e-300x the calibration mean, low-variance windows and every bad-pixel class alone and inside cubes: output must be monotone in the observation, saturate with the right sign, never be NaN-derived, keep nodata, not raise, and leave neighbours unchanged. " + EXPL,
            "expected indices from the C07 oracle; constant / single-valid pixels only required not to raise and to map equal inputs to equal outputs", "DESIGN.md §3 C08"),
    "C09": ("icontract post-conditions on the helper functions installed in the accessor namespace + compositional accessor oracle + relabelling pairs",
            "Every spi() call of the workload passes through contracts asserting that the returned index ranges are exactly {t: begin<=t<=end} (per group) and that to_linspace is a dense order-preserving relabelling; results are compared with per-group ungrouped SPI, attrs with first/last step, invalid windows must raise ValueError only. " + EXPL,
            "ungrouped kernel taken as reference (C07/C08)", "DESIGN.md §3 C09"),
    "C10": ("reference model from the definition (exact integers) over exhaustively enumerated tie patterns + metamorphic pairs + accessor monitor",
            "All weak orderings of length 2..6 (quick; ..7 thorough) in int16 and float32 through both gufunc wrappers, the yxt driver and the njit function, random series to length 200, and invariance/antisymmetry pairs. " + EXPL,
            "float32 resolution of stored outputs; p within 5e-16 absolute of the float64 formula", "DESIGN.md §3 C10"),
    "C11": ("runtime oracle monitor over the exhaustively enumerated calendar + icontract class invariant on Dekad + accessor/scalar differential",
            "Every one of the 3,652,059 dates and 359,964 dekads is pushed through the real Dekad class and each public attribute/operator observation is compared with an oracle built from calendar.monthrange; an icontract invariant watches the class during contract shards and the .time.dekad accessor is compared element-wise. The space is finite and enumerated completely; integer offsets are a hostile sample.",
            "trusts calendar.monthrange/datetime; offsets n from a fixed hostile set; accessor axes sampled (ns range 1678-2261)", "DESIGN.md §3 C11"),
    "C12": ("configuration-sweep pair monitor (eager vs dask: chunkings x schedulers x dim orders, delay injection at the kernel boundary), pixel-permutation pairs, prange thread-count sweep on both threading layers, sys.monitoring yield injection into the lazy-compile race",
            "Every accessor operation is computed eagerly and on dask-backed data under sampled (thorough: all) combinations of y/x chunking, scheduler (synchronous, 1/2/16 threads) and dim order with values, dims, coords, declared and computed dtype compared bit for bit; kernels are delayed by seeded sleeps so blocks finish out of order (orders recorded); ws2doptvplc_tyx runs under 1..16 threads on omp and workqueue; N threads race on the first call of lazily compiled kernels with sleeps injected between the None test and the assignment, closure cell reset between rounds. " + EXPL,
            "interleavings are sampled, not enumerated; Numba's compiler lock is trusted; a refused (raising) time-chunked input is allowed", "DESIGN.md §3 C12"),
    "C13": ("differential monitor compiled vs interpreted execution of the same code object (35 programs, all signature dtypes) + special-function differential (scipy ufuncs bit-equal, mpmath) + frozen-global monitor (module globals a kernel reads and library code assigns are moved after compilation)",
            "Identical in-contract inputs go to each compiled kernel and to its own code object run by CPython with NumPy semantics (callees stay compiled); floats to 1e-9 (float32 inputs: single precision, scaled by the conditioning of the gamma fit), integers equal up to tapped rounding ties, lambdas up to tapped criterion ties; digamma/gammainc/ndtri inside nopython code are compared with scipy.special (bit-equal) and mpmath. " + EXPL,
            "shim maps Numba type names to NumPy scalars and performs the C-style cast of np.round(z,0,out); loop-bound scalars are passed as ints; log(0) domain errors of the interpreted V-curve are an excluded, counted class", "DESIGN.md §3 C13"),
    "C14": ("NUMBA_BOUNDSCHECK=1 sanitizer runs of all 35 programs on minimum/edge/random in-contract inputs + poisoned output buffers + index-recording guard arrays on the interpreted kernels",
            "Each program is re-JITted with bounds checks and driven with boundary-sized inputs (a built-in probe proves the sanitizer fires); gufunc outputs pre-filled with two poison patterns must come back identical (every element written); njit results must repeat; the interpreted gufunc kernels run on arrays that record written cells and negative indices. " + EXPL,
            "bounds checking is Numba's own instrumentation of the same LLVM-generated kernels; it accepts negative wrap-around indices (recorded by the guard shards)", "DESIGN.md §3 C14"),
    "C15": ("reference model from the definition (float64 and exact rationals) + range/affine/encoding/layout monitors",
            "autocorr_1d (int/nodata and float/NaN), autocorr, autocorr_tyx and the accessor in both layouts are compared with the Pearson r of the mean-filled vectors over random, outage, leading/trailing and heavy gap patterns. " + EXPL,
            "|x| <= 9000 so integer sums are exact; float tolerance scales with max|x|^2 n / SSD", "DESIGN.md §3 C15"),
    "C16": ("exact integer reference model + permutation pairs + large-zone workloads",
            "do_mean and zonal.mean are compared with exact sums/counts for 1..1000 zones, every nodata share, NaN through the accessor, and single zones of 1e5, 1e6, 1.7e7 (thorough 2.5e7) pixels; pixel rearrangement must not change the result beyond the output precision. " + EXPL,
            "np.bincount float64 sums exact for integer data", "DESIGN.md §3 C16"),
    "C17": ("exhaustive enumeration through the real gufuncs against a per-position reference model + placeholder re-encoding pairs",
            "All series over a 4-symbol alphabet up to length 7 (thorough 8) x all windows x dtypes x three nodata encodings for rolling_sum; all labelings (k<=3) for mean_grp; random long series and accessors. " + EXPL,
            "mixed windows may legitimately return nodata or the valid sum", "DESIGN.md §3 C17"),
    "C18": ("exhaustive enumeration (all binary series to length 16) + structured long runs + permutation workloads against a groupby reference",
            "lroo on all 131,070 binary series, runs of 254..600 in series up to 1000 steps (kernel and accessor), croo under all / random stored time orders. " + EXPL,
            "binary uint8 input", "DESIGN.md §3 C18"),
    "C19": ("reference model (window enumeration) against recorded generator output; exhaustive small axes + off-axis label classes",
            "Every (n, begin, end) on axes of length 1..7 (thorough 1..12) for sum/mean/full, time and non-time dims, NaN cubes; off-axis labels with all lookup methods must raise ValueError exactly when not locatable. " + EXPL,
            "independent label-location model (exact / nearest / ffill / bfill)", "DESIGN.md §3 C19"),
    "C20": ("reference model (independent daily solve, exact rationals for short records) + constant/linear metamorphic classes + input-hash monitor",
            "tinterpolate/whitint outputs are compared with period means of an independently solved daily curve for 5..400 observations, regular/irregular marks, dekad/pentad/month/random labelings up to ~4000 days. " + EXPL,
            "tie tolerance from the measured solver disagreement", "DESIGN.md §3 C20"),
}

NOT_YET = {}


def main():
    props = [json.loads(l) for l in (ROOT / "properties.jsonl").read_text().splitlines() if l.strip()]
    checks = []
    na = []
    for p in props:
        pid = p["id"]
        if pid in CHECKS:
            tech, text, note, ref = CHECKS[pid]
            checks.append(
                {
                    "property_id": pid,
                    "quick_cmd": f"./check {pid} --tier quick",
                    "thorough_cmd": f"./check {pid} --tier thorough",
                    "evidence_file": f"/verif/evidence/{pid}.json",
                    "replay_cmd_template": f"./check {pid} --replay {{path}}",
                    "engine": "vf",
                    "level_claimed": {"category": "exploration", "text": text, "design_ref": ref},
                    "level_note": note,
                    "technique": tech,
                }
            )
        else:
            na.append({"property_id": pid, "reason": NOT_YET.get(pid, "check not built yet in this round (runtime monitor planned, see DESIGN.md §3); not claimed until it runs clean on the unchanged tree")})
    man = {
        "version": 1,
        "setup_cmd": "bash setup.sh",
        "hooks": {
            "guard": "HDC_ALGO_VERIF",
            "enable": "no source hooks are needed: monitors wrap the public callables from /verif (VERIF_REPO selects the tree, default /repo); every check process JIT-compiles the kernels from the current working tree",
            "baseline_off_cmd": BASELINE,
            "source_commits": [],
            "add_only": True,
        },
        "engines": [
            {
                "name": "vf",
                "path": "/verif/vf",
                "serves_properties": [c["property_id"] for c in checks],
                "kind_free_text": "runtime monitoring harness: sharded subprocess workloads against the real (JIT-compiled) code, boundary/metamorphic/reference-model oracles, NUMBA_BOUNDSCHECK sanitizer runs, interpreted state taps, sys.monitoring yield injection",
            }
        ],
        "checks": checks,
        "not_applicable": na,
        "notes": "Exit codes: 0 held, 1 violation (VIOLATION line + replay file), 2 inconclusive (INCONCLUSIVE line, never a VIOLATION). Known findings: known_findings.json (keyed by mechanism). Shared runtime monitors added to most checks by vf.main / vf.smooth: hostile memory layouts and input-unmodified check at the kernel boundary, life-cycle / concurrent / ambient-setting probes on the accessor objects (vf/reuse.py), presentation probes (vf/present.py: the same content in other legal containers, parameter spellings, refused / failed / abandoned calls that must leave nothing behind, also as the first call of a lazily compiled kernel); a shard killed by a fatal signal or an unexpected exception raised inside the tree under test is reported as a violation of the property whose workload provoked it.",
    }
    (ROOT / "MANIFEST.json").write_text(json.dumps(man, indent=1) + "\n")
    print(f"MANIFEST.json: {len(checks)} checks, {len(na)} not claimed")


if __name__ == "__main__":
    main()
