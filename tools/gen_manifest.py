#!/venv/bin/python
"""Writes MANIFEST.json from the table below (one entry per property; only built checks are claimed)."""

import json
from pathlib import Path

ROOT = Path(__file__).resolve().parent.parent

BASELINE = (
    "cd /repo && /venv/bin/python -m pytest -ra -q -p no:cacheprovider --timeout=900 "
    "--continue-on-collection-errors"
)

# id -> (technique, level text, level note, design ref)
CHECKS = {
    "C11": (
        "runtime oracle monitor over the exhaustively enumerated calendar + icontract class invariant on Dekad + accessor/scalar differential",
        "Every one of the 3,652,059 dates and 359,964 dekads is pushed through the real Dekad class and each public "
        "attribute/operator observation is compared with an oracle built from calendar.monthrange; an icontract invariant "
        "watches the class during a contract shard and the .time.dekad accessor is compared element-wise. The space is "
        "finite and enumerated completely, so for the scalar class this is as strong as observation gets; integer offsets "
        "are a hostile sample.",
        "trusts calendar.monthrange/datetime; offsets n sampled from a fixed hostile set; accessor axes sampled (ns range 1678-2261)",
        "DESIGN.md §3 C11",
    ),
}

NOT_YET = {}


def main():
    props = [json.loads(l) for l in (ROOT / "properties.jsonl").read_text().splitlines() if l.strip()]
    checks = []
    na = []
    for p in props:
        pid = p["id"]
        if pid in CHECKS:
            tech, text, note, ref = CHECKS[pid]
            checks.append(
                {
                    "property_id": pid,
                    "quick_cmd": f"./check {pid} --tier quick",
                    "thorough_cmd": f"./check {pid} --tier thorough",
                    "evidence_file": f"/verif/evidence/{pid}.json",
                    "replay_cmd_template": f"./check {pid} --replay {{path}}",
                    "engine": "vf",
                    "level_claimed": {"category": "exploration", "text": text, "design_ref": ref},
                    "level_note": note,
                    "technique": tech,
                }
            )
        else:
            na.append({"property_id": pid, "reason": NOT_YET.get(pid, "check not built yet in this round (runtime monitor planned, see DESIGN.md §3); not claimed until it runs clean on the unchanged tree")})
    man = {
        "version": 1,
        "setup_cmd": "bash setup.sh",
        "hooks": {
            "guard": "HDC_ALGO_VERIF",
            "enable": "no source hooks are needed: monitors wrap the public callables from /verif (VERIF_REPO selects the tree, default /repo); every check process JIT-compiles the kernels from the current working tree",
            "baseline_off_cmd": BASELINE,
            "source_commits": [],
            "add_only": True,
        },
        "engines": [
            {
                "name": "vf",
                "path": "/verif/vf",
                "serves_properties": [c["property_id"] for c in checks],
                "kind_free_text": "runtime monitoring harness: sharded subprocess workloads against the real (JIT-compiled) code, boundary/metamorphic/reference-model oracles, NUMBA_BOUNDSCHECK sanitizer runs, interpreted state taps, sys.monitoring yield injection",
            }
        ],
        "checks": checks,
        "not_applicable": na,
        "notes": "Exit codes: 0 held, 1 violation (VIOLATION line + replay file), 2 inconclusive (INCONCLUSIVE line, never a VIOLATION). Known findings: known_findings.json (keyed by mechanism).",
    }
    (ROOT / "MANIFEST.json").write_text(json.dumps(man, indent=1) + "\n")
    print(f"MANIFEST.json: {len(checks)} checks, {len(na)} not claimed")


if __name__ == "__main__":
    main()
