#!/venv/bin/python
"""Mutant matrix driver (validation of the monitors; not a registered check).

Each mutant is a textual replacement in a *scratch copy* of /repo/hdc (under /tmp/verif-mut/<id>, removed after use);
the check is pointed at it with VERIF_REPO.  /repo itself is never touched.

usage: tools/mutants.py list | run [--tier quick] [--tests] [--only ID,ID] [--prop C05] [--jobs N]
"""

from __future__ import annotations

import argparse
import json
import os
import shutil
import subprocess
import sys
import time
from concurrent.futures import ThreadPoolExecutor
from pathlib import Path

ROOT = Path(__file__).resolve().parent.parent
REG = ROOT / "tools" / "mutants.json"
BASE = Path("/tmp/verif-mut")


def make(m):
    d = BASE / m["id"]
    if d.exists():
        shutil.rmtree(d)
    d.mkdir(parents=True)
    shutil.copytree("/repo/hdc", d / "hdc", ignore=shutil.ignore_patterns("__pycache__"))
    edits = m.get("edits") or [{"file": m["file"], "old": m["old"], "new": m["new"], "count": m.get("count", 1)}]
    for e in edits:
        f = d / e["file"]
        s = f.read_text()
        n = s.count(e["old"])
        want = e.get("count", 1)
        if n == 0 or (want and n < want):
            raise SystemExit(f"mutant {m['id']}: pattern occurs {n}x in {e['file']} (want >= {want or 1}): {e['old']!r}")
        s = s.replace(e["old"], e["new"]) if want == 0 else s.replace(e["old"], e["new"], want)
        f.write_text(s)
    return d


def run_one(m, tier, tests):
    try:
        d = make(m)
    except SystemExit as e:  # pattern no longer present in the tree: report, do not kill the matrix
        return {"id": m["id"], "prop": m["prop"], "stale": str(e)[:200], **{p: {"rc": -1, "keys": [], "s": 0} for p in m["prop"].split(",")}}
    out = {"id": m["id"], "prop": m["prop"]}
    try:
        if tests:
            t0 = time.time()
            env = dict(os.environ, PYTHONPATH=str(d), PYTHONDONTWRITEBYTECODE="1")
            p = subprocess.run(
                ["/venv/bin/python", "-m", "pytest", "-q", "-x", "-p", "no:cacheprovider", "--rootdir", str(d), "/repo/tests"],
                cwd=str(d), env=env, capture_output=True, text=True, timeout=1800,
            )
            out["tests"] = "pass" if p.returncode == 0 else "FAIL: " + (p.stdout.strip().splitlines() or ["?"])[-1][:120]
            out["tests_s"] = round(time.time() - t0)
        for prop in m["prop"].split(","):
            t0 = time.time()
            env = dict(os.environ, VERIF_REPO=str(d), VERIF_NPROC=str(m.get("nproc", 8)), VERIF_OUT=str(d / "out"))
            p = subprocess.run([str(ROOT / "check"), prop, "--tier", tier], cwd=str(ROOT), env=env,
                               capture_output=True, text=True, timeout=7200)
            keys = [ln.split("key=")[1].split()[0] for ln in p.stdout.splitlines() if ln.strip().startswith("key=")]
            out[prop] = {"rc": p.returncode, "keys": keys, "s": round(time.time() - t0)}
            if p.returncode == 2:
                out[prop]["inconclusive"] = [ln[:300] for ln in p.stdout.splitlines() if ln.startswith("INCONCLUSIVE")][:3]
    finally:
        shutil.rmtree(d, ignore_errors=True)
    return out


def main():
    ap = argparse.ArgumentParser()
    ap.add_argument("cmd", choices=["list", "run"])
    ap.add_argument("--tier", default="quick")
    ap.add_argument("--tests", action="store_true")
    ap.add_argument("--only")
    ap.add_argument("--prop")
    ap.add_argument("--jobs", type=int, default=2)
    a = ap.parse_args()
    muts = json.loads(REG.read_text())["mutants"]
    if a.only:
        ids = set(a.only.split(","))
        muts = [m for m in muts if m["id"] in ids]
    if a.prop:
        muts = [m for m in muts if a.prop in m["prop"].split(",")]
    if a.cmd == "list":
        for m in muts:
            print(m["id"], m["prop"], m.get("file", "multi"), "|", m.get("note", ""))
        return
    try:
        with ThreadPoolExecutor(a.jobs) as ex:
            for r in ex.map(lambda m: run_one(m, a.tier, a.tests), muts):
                caught = all(r[p]["rc"] == 1 for p in r["prop"].split(","))
                print(("CAUGHT " if caught else "MISSED ") + json.dumps(r), flush=True)
    finally:
        shutil.rmtree(BASE, ignore_errors=True)


if __name__ == "__main__":
    main()
