#!/bin/bash
# tools/import_seed.sh <worktree-id> <seeded-name>: copies an agent's deliverables into /verif/seeded/<name>/ and makes the demo tree-agnostic
set -e
src=/tmp/seed/$1/_seed; dst=/verif/seeded/$2
mkdir -p $dst
cp $src/patch.diff $dst/patch.diff
/venv/bin/python -c "import json,sys,subprocess; m=json.load(open(sys.argv[1])); m['base_commit']=subprocess.run(['git','-C','/tmp/seed/'+sys.argv[3],'rev-parse','--short','HEAD'],capture_output=True,text=True).stdout.strip(); json.dump(m,open(sys.argv[2],'w'),indent=1)" $src/meta.json $dst/meta.json $1
sed -e "/startswith(.\/tmp\/seed/d" -e "s|sys.path.insert(0, *[\"']/tmp/seed/$1[\"'])|sys.path.insert(0, __import__('os').environ.get('HDC_TREE', '/repo'))|" $src/demo.py > $dst/demo.py
grep -n "HDC_TREE" $dst/demo.py | head -2
grep -n "/tmp/seed" $dst/demo.py || true
