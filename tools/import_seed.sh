#!/bin/bash
# tools/import_seed.sh <worktree-id> <seeded-name>: copies an agent's deliverables into /verif/seeded/<name>/ and makes the demo tree-agnostic
set -e
src=/tmp/seed/$1/_seed; dst=/verif/seeded/$2
mkdir -p $dst
cp $src/patch.diff $dst/patch.diff
cp $src/meta.json $dst/meta.json
sed -e "/startswith(.\/tmp\/seed/d" -e "s|sys.path.insert(0, *[\"']/tmp/seed/$1[\"'])|sys.path.insert(0, __import__('os').environ.get('HDC_TREE', '/repo'))|" $src/demo.py > $dst/demo.py
grep -n "HDC_TREE" $dst/demo.py | head -2
grep -n "/tmp/seed" $dst/demo.py || true
