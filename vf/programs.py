"""The 35 Numba programs of hdc.algo.ops (21 njit, 14 guvectorize) and how each is driven in-contract.

Every entry offers
  get()                         the real callable (compiled lazily from the tree under test)
  gen(rng, cls, dtype)          in-contract arguments; cls in {"min", "edge", "random"}
  outs(args)                    zero-initialised output buffers of one gufunc core call (gufuncs only)
  dtypes                        input dtypes of the signature that are exercised
Used by C13 (compiled vs interpreted) and C14 (bounds-check sanitizer, poison buffers, guard arrays).
"""

from __future__ import annotations

import importlib

import numpy as np

from . import smooth as S


def _mod(name):
    return importlib.import_module(name)


def _series(rng, n, dtype, lim=10000, nodata=None, miss=0.0):
    y = S.gen_series(rng, n, lim=lim)
    if nodata is not None:
        y = np.where(y == nodata, y + 1, y)
        if miss:
            y = np.where(rng.random(n) < miss, nodata, y)
    return y.astype(dtype)


def _n(rng, cls, lo=2, edge=(2, 3, 4, 5, 6), hi=120):
    if cls == "min":
        return lo
    if cls == "edge":
        return int(rng.choice([e for e in edge if e >= lo]))
    return int(rng.integers(max(lo, 5), hi))


def _llas(rng, cls):
    if cls in ("min", "edge"):
        return np.array([0.0, 0.5]) if cls == "min" else np.arange(-1.0, 1.5, 0.5)
    return S.gen_llas(rng)


class P:
    def __init__(self, name, kind, get, gen, dtypes, outs=None, lazy=False, min_len=2, interp_args=None, note=""):
        self.name, self.kind, self._get, self.gen, self.dtypes = name, kind, get, gen, dtypes
        self.outs, self.lazy, self.min_len, self.interp_args, self.note = outs, lazy, min_len, interp_args, note

    def get(self):
        return self._get()


def _ops(name):
    return lambda: getattr(_mod("hdc.algo.ops"), name)


def _st(name):
    return lambda: getattr(_mod("hdc.algo.ops.stats"), name)


def _ac(name):
    return lambda: getattr(_mod("hdc.algo.ops.autocorr"), name)


# ----------------------------------------------------------------------------- generators
def g_ws2d(rng, cls, dtype):
    n = _n(rng, cls, lo=2)
    y = _series(rng, n, "float64")
    w = (rng.random(n) < 0.8).astype(np.float64)
    if w.sum() < 2:
        w[:2] = 1
    if cls == "random" and rng.random() < 0.3:
        w = w * rng.choice([0.1, 0.9], n)
    return [y, float(10.0 ** rng.uniform(-3, 5)), w]


def _smooth_y(rng, cls, dtype="float64", nodata=-3000.0):
    n = _n(rng, cls, lo=2)
    mode = rng.integers(0, 7) if cls != "random" else int(rng.choice([4, 4, 4, 5, 6]))
    y = _series(rng, n, "float64", nodata=nodata, miss=(0.3 if rng.random() < 0.5 else 0.0))
    if mode == 5:  # flat: every residual is zero, every re-weighting pass of the robust kernels keeps its weights
        y[y != nodata] = float(rng.choice([0, 1, 5000, -17]))
    elif mode == 6 and n >= 6:  # flat with a spike or two
        y[y != nodata] = float(rng.integers(50, 3000))
        k = rng.choice(n, 2, replace=False)
        y[k] = np.where(y[k] != nodata, y[k] + rng.integers(300, 3000, 2), y[k])
    if mode == 0:
        y[:] = nodata  # all missing
    elif mode == 1:
        y[:] = nodata
        y[rng.integers(0, n)] = 7  # one valid
    elif mode == 2 and n >= 2:
        y[:] = nodata
        y[rng.choice(n, 2, replace=False)] = [5, 9]  # two valid
    return y.astype(dtype)


def g_gu(rng, cls, dtype):
    return [_smooth_y(rng, cls), float(10.0 ** rng.uniform(-3, 5)) if rng.random() < 0.9 else 0.0, -3000.0]


def g_pgu(rng, cls, dtype):
    return [_smooth_y(rng, cls), float(10.0 ** rng.uniform(-3, 5)), -3000.0, float(rng.uniform(0.05, 0.95))]


def g_optv(rng, cls, dtype):
    return [_smooth_y(rng, cls), -3000.0, _llas(rng, cls)]


def g_optvp(rng, cls, dtype):
    return [_smooth_y(rng, cls), -3000.0, float(rng.uniform(0.05, 0.95)), _llas(rng, cls)]


def g_optvplc(rng, cls, dtype):
    return [_smooth_y(rng, cls, "int16"), -3000.0, float(rng.uniform(0.05, 0.95)), float(rng.choice([-1, 0.2, 0.5, 0.7, 1.0]))]


def g_wcv(rng, cls, dtype):
    return [_smooth_y(rng, cls), -3000.0, _llas(rng, cls), bool(rng.integers(0, 2))]


def g_wcvp(rng, cls, dtype):
    return [_smooth_y(rng, cls), -3000.0, float(rng.uniform(0.05, 0.95)), _llas(rng, cls), bool(rng.integers(0, 2))]


def g__optvp(rng, cls, dtype):
    n = _n(rng, cls, lo=3)
    y = _series(rng, n, "float64")
    w = np.ones(n)
    if n > 4:
        w[rng.random(n) < 0.2] = 0
        w[:2] = 1
    return [y, w, float(rng.uniform(0.05, 0.95)), _llas(rng, cls)]


def g__wcvp(rng, cls, dtype):
    n = _n(rng, cls, lo=5, edge=(5, 6, 7))
    y = _series(rng, n, "float64")
    w = np.ones(n)
    if n > 8:
        w[rng.random(n) < 0.2] = 0
        w[:5] = 1
    return [y, w, float(rng.uniform(0.05, 0.95)), _llas(rng, cls), bool(rng.integers(0, 2))]


def g_tyx(rng, cls, dtype):
    nt = _n(rng, cls, lo=2, hi=40)
    nr, nc = (1, 1) if cls == "min" else (int(rng.integers(1, 4)), int(rng.integers(1, 4)))
    cube = np.empty((nt, nr, nc), dtype=np.int16)
    for a in range(nr):
        for b in range(nc):
            cube[:, a, b] = _series(rng, nt, "int16", nodata=-3000, miss=0.2)
    if cls != "random":
        cube[:, 0, 0] = -3000  # an all-missing pixel
    return [cube, float(rng.uniform(0.05, 0.95)), -3000]


def g_brentq(rng, cls, dtype):
    s = float(10 ** rng.uniform(-4, 1))
    a = (3 - s + np.sqrt((s - 3) ** 2 + 24 * s)) / (12 * s)
    if rng.random() < 0.15:
        return [a * 2.0, a * 3.0, s]  # no sign change: returns 0
    return [a * 0.6, a * 1.4, s]


def _gamma(rng, n, dtype, zeros=0.2, nodata=-9999):
    shape = float(10 ** rng.uniform(-1, 2))
    scale = float(10 ** rng.uniform(0, 2.5))
    x = rng.gamma(shape, scale, n)
    if dtype == "int16":
        x = np.minimum(np.round(x), 30000)
    x[rng.random(n) < zeros * rng.random()] = 0
    if rng.random() < 0.5:
        x[rng.random(n) < 0.2] = nodata
    return x.astype(dtype)


def g_gammafit(rng, cls, dtype):
    n = _n(rng, cls, lo=1, edge=(1, 2, 3))
    x = _gamma(rng, n, dtype)
    return [x[x != -9999] if (x != -9999).any() else x]


def g_gammastd(rng, cls, dtype):
    n = _n(rng, cls, lo=1, edge=(1, 2, 3, 4))
    x = _gamma(rng, n, dtype)
    c0 = int(rng.integers(0, n))
    c1 = int(rng.integers(c0 + 1, n + 1))
    if rng.random() < 0.5:
        c0, c1 = 0, n
    return [x, -9999.0, c0, c1]


def g_gammastd_yxt(rng, cls, dtype):
    n = _n(rng, cls, lo=1, edge=(1, 2, 3, 4), hi=60)
    r, c = (1, 1) if cls == "min" else (int(rng.integers(1, 4)), int(rng.integers(1, 4)))
    cube = np.stack([np.stack([_gamma(rng, n, dtype) for _ in range(c)]) for _ in range(r)])
    if cls != "random":
        cube[0, 0] = -9999
    c0 = int(rng.integers(0, n))
    c1 = int(rng.integers(c0 + 1, n + 1))
    if rng.random() < 0.5:
        c0, c1 = 0, n
    return [cube, -9999.0, c0, c1]


def g_gammastd_grp(rng, cls, dtype):
    n = _n(rng, cls, lo=1, edge=(1, 2, 3, 4, 6), hi=72)
    k = 1 if cls == "min" else int(rng.choice([1, min(n, 2), min(n, 3), n]))
    groups = (np.arange(n) % k).astype(np.int16)
    if cls == "random":
        groups = np.sort(groups) if rng.random() < 0.5 else groups
    if cls != "min" and k > 1 and rng.random() < 0.5:
        # uneven, non-periodic layouts (seasons of 7 and 5 months, one dominant group): every group keeps >= 1 member
        w = rng.dirichlet(np.full(k, 0.4))
        groups = rng.choice(k, n, p=w)
        groups[rng.choice(n, k, replace=False)] = np.arange(k)
        groups = (np.sort(groups) if rng.random() < 0.5 else groups).astype(np.int16)
    x = _gamma(rng, n, dtype)
    if cls != "min" and k > 1 and rng.random() < 0.3:
        x[groups == int(rng.integers(0, k))] = -9999  # one whole group missing (its slot in every per-group bookkeeping stays empty)
    cal = np.zeros((k, 2), dtype=np.int16)
    for g in range(k):
        m = int((groups == g).sum())
        a = int(rng.integers(0, m))
        b = int(rng.integers(a + 1, m + 1))
        cal[g] = (0, m) if rng.random() < 0.5 else (a, b)
    return [x, groups, k, -9999.0, cal]


def _mkx(rng, cls, dtype):
    n = _n(rng, cls, lo=2, edge=(2, 3, 4), hi=80)
    if dtype == "int16":
        return rng.integers(-200, 200, n).astype(np.int16)
    if dtype == "int16full":
        return rng.integers(-32768, 32768, n).astype(np.int16)
    x = np.round(rng.normal(0, 10, n), int(rng.integers(0, 3)))
    return x.astype(dtype)


def g_mk1(rng, cls, dtype):
    return [_mkx(rng, cls, dtype)]


def g_mkz(rng, cls, dtype):
    s = int(rng.integers(-50, 51))
    return [s, float(rng.uniform(1, 500))]


def g_mkp(rng, cls, dtype):
    return [float(rng.normal(0, 3))]


def g_mkyxt(rng, cls, dtype):
    n = _n(rng, cls, lo=2, edge=(2, 3, 4), hi=40)
    r, c = (1, 1) if cls == "min" else (int(rng.integers(1, 3)), int(rng.integers(1, 4)))
    base = "int16" if dtype.startswith("int16") else dtype
    return [np.stack([np.stack([(rng.integers(-200, 200, n).astype(base) if base == "int16" else np.round(rng.normal(0, 10, n), 1).astype(base)) for _ in range(c)]) for _ in range(r)])]


def g_mk_nd(rng, cls, dtype):
    x = _mkx(rng, cls, dtype)
    if cls != "random" and rng.random() < 0.5:
        x[:] = -9999 if dtype != "int16full" else -32768
    return [x, -9999.0 if dtype != "int16full" else -32768.0]


def _acx(rng, cls, dtype, nodata=None):
    n = _n(rng, cls, lo=2, edge=(2, 3, 4), hi=200)
    if dtype in ("int16", "int32"):
        x = rng.integers(-150, 150, n)
        if nodata is not None:
            x = np.where(x == nodata, 0, x)
            x = np.where(rng.random(n) < 0.2, nodata, x)
        return x.astype(dtype)
    if dtype == "int16full":
        x = rng.integers(-9000, 9000, n)
        x = np.where(rng.random(n) < 0.2, nodata, x)
        return x.astype(np.int16)
    x = rng.normal(0, 50, n)
    x[rng.random(n) < 0.2] = np.nan
    return x.astype(dtype)


def g_ac_float(rng, cls, dtype):
    return [_acx(rng, cls, dtype)]


def g_ac_int(rng, cls, dtype):
    return [_acx(rng, cls, dtype, nodata=-9999), -9999]


def g_ac_1d(rng, cls, dtype):
    if dtype.startswith("int"):
        return [_acx(rng, cls, dtype, nodata=-9999), -9999]
    return [_acx(rng, cls, dtype)]


def g_ac_cube(layout):
    def g(rng, cls, dtype):
        n = _n(rng, cls, lo=2, edge=(2, 3, 4), hi=60)
        r, c = (1, 1) if cls == "min" else (int(rng.integers(1, 3)), int(rng.integers(1, 4)))
        isint = dtype.startswith("int")
        cube = np.stack([np.stack([(np.where(rng.random(n) < 0.2, -9999, rng.integers(-150, 150, n)).astype("int16") if isint else np.where(rng.random(n) < 0.2, np.nan, rng.normal(0, 50, n)).astype(dtype)) for _ in range(c)]) for _ in range(r)])
        if layout == "tyx":
            cube = np.ascontiguousarray(cube.transpose(2, 0, 1))
        return [cube, -9999] if isint else [cube]
    return g


def g_do_mean(rng, cls, dtype):
    t = 1 if cls == "min" else int(rng.integers(1, 4))
    ny, nx = (1, 1) if cls == "min" else (int(rng.integers(1, 12)), int(rng.integers(1, 12)))
    nz = 1 if cls == "min" else int(rng.integers(1, 9))
    # zone rasters come in whatever integer type the administrative layer was rasterised to; ids reach the top of the type
    zdt, z_nodata = [(np.int16, -1), (np.int16, -1), (np.int32, -1), (np.int64, -1), (np.uint8, 255), (np.int8, -1), (np.uint16, 65535), (np.int16, -1)][int(rng.integers(0, 8))]
    if cls != "min" and rng.random() < 0.5:
        top = int(min(np.iinfo(zdt).max - 1, 40000))
        nz = int(rng.integers(max(2, top // 2), top + 1))
        zones = rng.integers(max(0, nz - 12), nz, (ny, nx)).astype(zdt)  # the highest ids
        zones[rng.random((ny, nx)) < 0.3] = rng.integers(0, 3)
    else:
        zones = rng.integers(0, nz, (ny, nx)).astype(zdt)
    if cls != "min":
        zones[rng.random((ny, nx)) < 0.2] = z_nodata
    if dtype.startswith("int"):
        px = rng.integers(-100, 3000, (t, ny, nx)).astype(dtype)
    else:
        px = rng.normal(100, 30, (t, ny, nx)).astype(dtype)
    px[rng.random((t, ny, nx)) < 0.2] = -9999
    return [px, zones, nz, -9999, z_nodata, np.float32 if rng.random() < 0.5 else np.float64]


def g_mean_grp(rng, cls, dtype):
    n = _n(rng, cls, lo=1, edge=(1, 2, 3, 5), hi=80)
    k = 1 if cls == "min" else int(rng.choice([1, min(n, 2), min(n, 5), n]))
    groups = (rng.permutation(n) % k).astype(np.int16)
    if cls != "min" and k > 1 and rng.random() < 0.5:
        w = rng.dirichlet(np.full(k, 0.4))
        groups = rng.choice(k, n, p=w)
        groups[rng.choice(n, k, replace=False)] = np.arange(k)
        groups = groups.astype(np.int16)
    x = rng.integers(0, 300 if rng.random() < 0.5 else 9000, n).astype(np.float64)  # sums beyond int16 in the second class
    x[rng.random(n) < 0.3] = -9999
    return [x.astype(dtype), groups, k, -9999.0]


def g_rolling(rng, cls, dtype):
    n = _n(rng, cls, lo=1, edge=(1, 2, 3, 5), hi=80)
    w = 1 if cls == "min" else int(rng.choice([1, n, int(rng.integers(1, n + 1))]))
    x = rng.integers(0, 300, n).astype(np.float64)
    x[rng.random(n) < 0.3] = -9999
    return [x.astype(dtype), w, -9999.0]


def g_lroo(rng, cls, dtype):
    n = _n(rng, cls, lo=1, edge=(1, 2, 3), hi=400)
    return [(rng.random(n) < rng.uniform(0.2, 0.95)).astype(np.uint8)]


def g_tint(rng, cls, dtype):
    nobs = 2 if cls == "min" else int(rng.choice([2, 3, 5, 12, 40])) if cls == "edge" else int(rng.integers(5, 80))
    gaps = rng.integers(1, 12, nobs)
    if cls == "min":
        gaps = np.array([1, 2])
    pos = np.cumsum(gaps) - gaps[0]
    m = max(4, int(pos[-1] + 1 + (rng.integers(0, 5) if cls != "min" else 1)))
    template = np.zeros(m)
    template[pos] = 1
    runs = []
    tot = 0
    while tot < m:
        r = int(rng.integers(1, 12))
        runs.append(r)
        tot += r
    labels = np.repeat(np.arange(len(runs)), runs)[:m].astype(np.int32)
    x = rng.integers(-3000, 9000, nobs).astype(np.int16)
    return [x, template, labels, np.zeros(np.unique(labels).size, dtype=np.uint8)]


# ----------------------------------------------------------------------------- output buffers of one gufunc core call
def o_band(args):
    return [np.zeros(args[0].shape[-1], dtype=np.int16)]


def o_band_lopt(args):
    return [np.zeros(args[0].shape[-1], dtype=np.int16), np.zeros(1, dtype=np.float64)]


def o_like_i16(args):
    return [np.zeros(args[0].shape[-1], dtype=np.int16)]


def o_mk(args):
    return [np.zeros(1, dtype=np.float32), np.zeros(1, dtype=np.float32), np.zeros(1, dtype=np.float32), np.zeros(1, dtype=np.int8)]


def o_f32_like(args):
    return [np.zeros(args[0].shape[-1], dtype=np.float32)]


def o_lroo(args):
    # dtype of the declared output (read from the compiled gufunc when available)
    return [np.zeros(1, dtype=np.uint32)]


def o_tint(args):
    return [np.zeros(args[3].shape[-1], dtype=np.int16)]


PROGRAMS = [
    P("ws2d", "njit", lambda: S.K("ws2d"), g_ws2d, ["float64"]),
    P("_ws2doptvp", "njit", lambda: S.K("_ws2doptvp"), g__optvp, ["float64"], min_len=3),
    P("_ws2dwcvp", "njit", lambda: S.K("_ws2dwcvp"), g__wcvp, ["float64"], min_len=5),
    P("ws2doptvplc_tyx", "njit", lambda: S.K("ws2doptvplc_tyx"), g_tyx, ["int16"], lazy=True, note="parallel=True; prange -> range when interpreted"),
    P("brentq", "njit", _st("brentq"), g_brentq, ["float64"]),
    P("gammafit", "njit", _st("gammafit"), g_gammafit, ["int16", "float32", "float64"], min_len=1),
    P("gammastd", "njit", _st("gammastd"), g_gammastd, ["int16", "float32", "float64"], min_len=1),
    P("gammastd_yxt", "njit", _st("gammastd_yxt"), g_gammastd_yxt, ["int16", "float32", "float64"], min_len=1),
    P("mk_score", "njit", _st("mk_score"), g_mk1, ["int16", "int16full", "float32", "float64"]),
    P("mk_variance_s", "njit", _st("mk_variance_s"), g_mk1, ["int16", "int16full", "float32", "float64"]),
    P("mk_z_score", "njit", _st("mk_z_score"), g_mkz, ["float64"]),
    P("mk_p_value", "njit", _st("mk_p_value"), g_mkp, ["float64"]),
    P("mk_sens_slope", "njit", _st("mk_sens_slope"), g_mk1, ["int16", "int16full", "float32", "float64"]),
    P("mann_kendall_trend_yxt", "njit", _st("mann_kendall_trend_yxt"), g_mkyxt, ["int16", "float32", "float64"]),
    P("mann_kendall_trend_1d", "njit", _st("mann_kendall_trend_1d"), g_mk1, ["int16", "int16full", "float32", "float64"]),
    P("autocorr_1d_float", "njit", _ac("autocorr_1d_float"), g_ac_float, ["float32", "float64"]),
    P("autocorr_1d_int", "njit", _ac("autocorr_1d_int"), g_ac_int, ["int16", "int16full", "int32"]),
    P("autocorr_1d", "njit", _ac("autocorr_1d"), g_ac_1d, ["int16", "float32", "float64"]),
    P("autocorr", "njit", _ac("autocorr"), g_ac_cube("yxt"), ["int16", "float32"], lazy=True),
    P("autocorr_tyx", "njit", _ac("autocorr_tyx"), g_ac_cube("tyx"), ["int16", "float32"], lazy=True),
    P("do_mean", "njit", lambda: _mod("hdc.algo.ops.zonal").do_mean, g_do_mean, ["int16", "float32", "float64"], lazy=True),
    P("ws2dgu", "gufunc", _ops("ws2dgu"), g_gu, ["float64"], outs=o_band, lazy=True),
    P("ws2dpgu", "gufunc", _ops("ws2dpgu"), g_pgu, ["float64"], outs=o_band, lazy=True),
    P("ws2doptv", "gufunc", _ops("ws2doptv"), g_optv, ["float64"], outs=o_band_lopt, lazy=True),
    P("ws2doptvp", "gufunc", _ops("ws2doptvp"), g_optvp, ["float64"], outs=o_band_lopt, lazy=True),
    P("ws2doptvplc", "gufunc", _ops("ws2doptvplc"), g_optvplc, ["int16"], outs=o_band_lopt, lazy=True),
    P("ws2dwcv", "gufunc", _ops("ws2dwcv"), g_wcv, ["float64"], outs=o_band_lopt, lazy=True),
    P("ws2dwcvp", "gufunc", _ops("ws2dwcvp"), g_wcvp, ["float64"], outs=o_band_lopt, lazy=True),
    P("gammastd_grp", "gufunc", _st("gammastd_grp"), g_gammastd_grp, ["int16", "float32"], outs=o_like_i16, lazy=True, min_len=1),
    P("_mann_kendall_trend_gu_nd", "gufunc", _st("_mann_kendall_trend_gu_nd"), g_mk_nd, ["int16", "int16full", "float32"], outs=o_mk, lazy=True),
    P("_mann_kendall_trend_gu", "gufunc", _st("_mann_kendall_trend_gu"), g_mk1, ["int16", "int16full", "float32"], outs=o_mk, lazy=True),
    P("mean_grp", "gufunc", _st("mean_grp"), g_mean_grp, ["float32", "int16", "int32", "int64"], outs=o_f32_like, lazy=True, min_len=1),
    P("rolling_sum", "gufunc", _st("rolling_sum"), g_rolling, ["float32", "int16", "int64"], outs=o_f32_like, lazy=True, min_len=1),
    P("lroo", "gufunc", _ops("lroo"), g_lroo, ["uint8"], outs=o_lroo, lazy=True, min_len=1),
    P("tinterpolate", "gufunc", _ops("tinterpolate"), g_tint, ["int16"], outs=o_tint, lazy=True),
]
BY_NAME = {p.name: p for p in PROGRAMS}
assert len(PROGRAMS) == 35


def base_dtype(dtype):
    return "int16" if dtype == "int16full" else dtype
