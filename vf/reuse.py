"""Stale-state monitor: an accessor result is a function of the object's *current* values, coordinates and attributes.

xarray caches ``da.hdc`` (and the sub-accessors built in its __init__) on the DataArray object, so anything an accessor
memoises - the nodata attribute, a transposed copy of the data, the sorted time order - survives in-place changes of that
object.  The probe runs an operation once, changes the same object in place, runs it again and holds the second outcome
to the outcome on a freshly built object with the same current content.
"""

from __future__ import annotations

import warnings

import numpy as np


def fresh(da):
    """A new DataArray (new accessor instances) with the same current content."""
    import xarray as xr

    coords = {k: (v.dims, np.array(v.values, copy=True)) for k, v in da.coords.items()}
    return xr.DataArray(np.array(da.values, copy=True), dims=da.dims, coords=coords, attrs=dict(da.attrs), name=da.name)


def outcome(op, da):
    with warnings.catch_warnings():
        warnings.simplefilter("ignore")
        try:
            res = op(da)
        except Exception as e:  # the *kind* of failure is part of the outcome (a retry after adding an attribute must work)
            return ("raise", type(e).__name__)
    if hasattr(res, "__next__") or isinstance(res, (list, tuple)):
        res = list(res)
    return ("ok", res)


ATTRS_IN_RESULT = [False]  # set per probe: only where the property itself speaks of attributes (C09 calibration window, C19 agg_*)


def _attr_tag(da):
    """Attributes are part of a result where the property says so (agg_start / agg_stop / agg_n, calibration window)."""
    return "" if not (ATTRS_IN_RESULT[0] and da.attrs) else " attrs=" + repr(sorted((str(k), str(v)) for k, v in da.attrs.items()))


def ambient_probe(R, pid, name, da, op, case=None):
    """Process-wide settings an application may have changed must not change what an operation returns."""
    import xarray as xr

    ATTRS_IN_RESULT[0] = pid in ("C09", "C19")
    ref = outcome(op, fresh(da))
    for label, ctx in (("xarray.set_options(keep_attrs=False)", lambda: xr.set_options(keep_attrs=False)),
                       ("xarray.set_options(keep_attrs=True)", lambda: xr.set_options(keep_attrs=True)),
                       ("numpy.errstate(all='ignore')", lambda: np.errstate(all="ignore"))):
        with ctx():
            got = outcome(op, fresh(da))
        R.count("ambient_probes")
        ok_ = same(got, ref)
        if not ok_:
            ATTRS_IN_RESULT[0] = False
            R.violation(f"{pid}:ambient-setting", f"{name}: under {label} the result is {describe(got)}, with default settings {describe(ref)}", dict(case or {}, op=name, setting=label))
            return False
    ATTRS_IN_RESULT[0] = False
    return True


def _flat(res):
    import xarray as xr

    if isinstance(res, xr.Dataset):
        return [(k + _attr_tag(res[k]), res[k].dims, np.asarray(res[k].values)) for k in sorted(res.data_vars)]
    if isinstance(res, xr.DataArray):
        return [(_attr_tag(res), res.dims, np.asarray(res.values))]
    if isinstance(res, list):
        out = []
        for i, r in enumerate(res):
            out.extend((f"{i}:{k}", d, v) for k, d, v in _flat(r))
        return out
    return [("", (), np.asarray(res))]


def same(a, b):
    if a[0] != b[0]:
        return False
    if a[0] == "raise":
        return a[1] == b[1]
    fa, fb = _flat(a[1]), _flat(b[1])
    if len(fa) != len(fb):
        return False
    for (ka, da_, va), (kb, db, vb) in zip(fa, fb):
        if ka != kb or tuple(da_) != tuple(db) or va.shape != vb.shape or va.dtype != vb.dtype:
            return False
        if not np.array_equal(va, vb, equal_nan=va.dtype.kind in "fc"):
            return False
    return True


def describe(o):
    if o[0] == "raise":
        return f"raises {o[1]}"
    f = _flat(o[1])
    return "; ".join(f"{k or 'result'}{list(v.shape)}={np.asarray(v).ravel()[:5].tolist()}" for k, _, v in f[:2])


def probe(R, pid, name, da, op, mutations, case=None, first_op=None):
    """``mutations``: list of (label, fn) where fn(da) changes the SAME object in place.  ``first_op``: the operation that
    uses the object first (default: the probed one) - one feature must not poison the object for another."""
    # an operation reads its input: the caller's data must be bit-identical afterwards, and memory the caller may not
    # write to (np.load(mmap_mode="r"), broadcast views, frombuffer) must be as good as any other
    vals = da.values
    before = vals.tobytes()
    readonly = bool(case and case.get("readonly")) and vals.flags.writeable
    if readonly:
        vals.setflags(write=False)
        R.count("reuse_first_use_on_read_only_memory")
    first = outcome(first_op or op, da)  # first use: whatever the accessor wants to remember, it remembers now
    if readonly:
        vals.setflags(write=True)
        ref = outcome(first_op or op, fresh(da))
        if not same(first, ref):
            R.violation(f"{pid}:read-only-input", f"{name}: on read-only memory the first operation {describe(first)}, on a writable copy {describe(ref)}", dict(case or {}, op=name))
            return False
    R.count("reuse_input_unmodified_checks")
    if da.values.tobytes() != before:
        R.violation(f"{pid}:input-mutated", f"{name}: the first operation changed the values of the DataArray it was called on ({int(np.sum(np.frombuffer(before, dtype=vals.dtype) != vals.ravel()))} cells)", dict(case or {}, op=name))
        return False
    for label, mut in [("nothing (second use of the same object)", lambda d: None)] + list(mutations):
        mut(da)
        want = outcome(op, fresh(da))
        got = outcome(op, da)
        R.count("reuse_probes")
        R.count(f"reuse_{label}")
        R.count("reuse_outcome_ok" if want[0] == "ok" else f"reuse_outcome_raises_{want[1]}")
        if not same(got, want):
            R.violation(f"{pid}:stale-state", f"{name}: after {label} on the same object the result is {describe(got)}, on a fresh object with the same content {describe(want)}",
                        dict(case or {}, op=name, mutation=label))
            return False
    return True


# ---- in-place mutations -------------------------------------------------------------------------------------------
def flag_cells(rng, nodata, share=0.2):
    def mut(da):
        v = da.values
        m = rng.random(v.shape) < share
        v[m] = nodata
    return mut


def set_attr(key, value):
    def mut(da):
        da.attrs[key] = value
    return mut


def recode_nodata(new):
    """Re-encode the missing cells with another placeholder and update the attribute accordingly."""
    def mut(da):
        old = da.attrs.get("nodata")
        if old is not None:
            v = da.values
            v[v == old] = new
        da.attrs["nodata"] = new
    return mut


def relabel_time(rng):
    def mut(da):
        t = da["time"].values
        da["time"] = t[rng.permutation(t.size)]
    return mut


PIDS = ("C02", "C03", "C04", "C05", "C06", "C07", "C08", "C09", "C10", "C11", "C15", "C16", "C17", "C18", "C19", "C20")


# ---- per-property operation tables (small cubes; the point is the object's life cycle, not the numerics) -------------
def _cube(rng, nt, dtype="int16", nodata=-9999, ny=2, nx=3, order=("time", "y", "x"), with_attr=True, binary=False, hostile_pixels=False):
    import pandas as pd
    import xarray as xr

    t = np.arange(nt)
    if binary:
        data = (rng.random((nt, ny, nx)) < 0.7).astype(dtype)
    else:
        data = np.round(3000 + 2000 * np.sin(2 * np.pi * t / 9.0)[:, None, None] + rng.normal(0, 300, (nt, ny, nx)))
        data[rng.random(data.shape) < 0.1] = nodata
        if hostile_pixels and ny * nx >= 6:  # degenerate pixels next to ordinary ones: nothing observed, constant, all zero
            data[:, 0, 0] = nodata
            data[:, -1, -1] = 1234
            data[:, 0, -1] = 0
            data[: max(2, nt // 3), 1, 0] = 0  # a dry season: the zero share of this pixel differs between parts of the axis
        data = data.astype(dtype)
    da = xr.DataArray(data, dims=["time", "y", "x"], coords={"time": pd.date_range("2001-01-01", periods=nt, freq="10D"), "y": np.arange(ny) * 1.0, "x": np.arange(nx) * 1.0},
                      attrs={"nodata": nodata} if with_attr else {}, name="band")
    return da.transpose(*order).copy(deep=True)


def _ops(pid, rng, nt):
    import xarray as xr

    ND = -9999
    srange = np.arange(-1.0, 2.0, 0.5)
    groups = (np.arange(nt) % 3).astype("int16")
    if pid in ("C02", "C03", "C04", "C05", "C06"):
        def lcr(v):
            return lambda d: d.hdc.whit.whitsvc(nodata=ND, lc=xr.DataArray(np.full(tuple(d.sizes[k] for k in d.dims if k != "time"), v), dims=[k for k in d.dims if k != "time"]), p=0.8)
        if pid == "C04":
            return {"whitsvc_lc_high": lcr(0.9), "whitsvc_lc_low": lcr(0.1), "whitsvc": lambda d: d.hdc.whit.whitsvc(nodata=ND, srange=srange),
                    "whitsvc_p": lambda d: d.hdc.whit.whitsvc(nodata=ND, srange=srange + 0.25, p=0.8)}
        if pid == "C03":
            return {"whits": lambda d: d.hdc.whit.whits(nodata=ND, s=10.0), "whits_s1000": lambda d: d.hdc.whit.whits(nodata=ND, s=1000.0),
                    "whits_p": lambda d: d.hdc.whit.whits(nodata=ND, s=10.0, p=0.8), "whits_p2": lambda d: d.hdc.whit.whits(nodata=ND, s=100.0, p=0.2)}
        if pid == "C05":
            return {"whitswcv": lambda d: d.hdc.whit.whitswcv(nodata=ND, srange=srange, robust=False), "whitswcv_other_grid": lambda d: d.hdc.whit.whitswcv(nodata=ND, srange=srange + 0.25, robust=False),
                    "whitswcv_robust_p": lambda d: d.hdc.whit.whitswcv(nodata=ND, srange=srange, p=0.8), "whitswcv_default": lambda d: d.hdc.whit.whitswcv(nodata=ND)}
        return {
            "whits": lambda d: d.hdc.whit.whits(nodata=ND, s=10.0),
            "whits_p": lambda d: d.hdc.whit.whits(nodata=ND, s=10.0, p=0.8),
            "whitsvc": lambda d: d.hdc.whit.whitsvc(nodata=ND, srange=srange),
            "whitsvc_p": lambda d: d.hdc.whit.whitsvc(nodata=ND, srange=srange, p=0.8),
            "whitswcv": lambda d: d.hdc.whit.whitswcv(nodata=ND, srange=srange, robust=False),
            "whitswcv_robust_p": lambda d: d.hdc.whit.whitswcv(nodata=ND, srange=srange, p=0.8),
        }
    if pid in ("C07", "C08", "C09"):
        return {"spi": lambda d: d.hdc.algo.spi(), "spi_grouped": lambda d: d.hdc.algo.spi(groups=[str(g) for g in groups]),
                "spi_window": lambda d: d.hdc.algo.spi(calibration_begin=str(d.time.values.min())[:10], calibration_end=str(np.sort(d.time.values)[-3])[:10])}
    if pid == "C10":
        return {"mktrend": lambda d: d.hdc.algo.mktrend()}
    if pid == "C15":
        return {"autocorr": lambda d: d.hdc.algo.autocorr()}
    if pid == "C12":  # cheap operations of every kind of code path (njit driver, gufunc through apply_ufunc, map_blocks)
        return {"autocorr": lambda d: d.hdc.algo.autocorr(), "rolling_sum": lambda d: d.hdc.rolling.sum(3), "mktrend": lambda d: d.hdc.algo.mktrend(),
                "mean_grp": lambda d: d.hdc.algo.mean_grp(groups), "whits": lambda d: d.hdc.whit.whits(nodata=ND, s=10.0)}
    if pid == "C16":
        def zm(d):
            py, px = [k for k in d.dims if k != "time"]
            zones = xr.DataArray((np.arange(d.sizes[py] * d.sizes[px]).reshape(d.sizes[py], d.sizes[px]) % 3).astype("int16"), dims=[py, px], attrs={"nodata": -1})
            return d.hdc.zonal.mean(zones, [0, 1, 2])
        return {"zonal_mean": zm}
    if pid == "C17":
        return {"rolling_sum": lambda d: d.hdc.rolling.sum(3), "mean_grp": lambda d: d.hdc.algo.mean_grp(groups)}
    if pid == "C18":
        return {"croo": lambda d: d.hdc.algo.croo(), "lroo": lambda d: d.hdc.algo.lroo()}
    if pid == "C19":
        return {"iteragg_sum": lambda d: list(d.hdc.iteragg.sum(2)), "iteragg_mean": lambda d: list(d.hdc.iteragg.mean(3, begin=d.time.values[-2]))}
    if pid == "C20":
        m = 10 * (nt - 1) + 1
        template = np.zeros(m)
        template[::10] = 1
        labels = (np.arange(m) // 7).astype(np.int32)
        template2 = np.zeros(m)  # another sensor: the same number of observations on other days
        template2[np.maximum(0, 10 * np.arange(nt) - 1)] = 1
        labels2 = (np.arange(m) // 11).astype(np.int32)
        return {"whitint": lambda d: d.hdc.whit.whitint(labels, template), "whitint_other_days": lambda d: d.hdc.whit.whitint(labels, template2),
                "whitint_other_periods": lambda d: d.hdc.whit.whitint(labels2, template)}
    if pid == "C11":
        return {"dekad_labels": lambda d: np.asarray([str(v) for v in np.ravel(d.time.dekad.label if hasattr(d.time.dekad, "label") else d.time.dekad.raw)])}
    raise KeyError(pid)


def shard(spec, R, pid):
    """Life-cycle workload of one property: every operation x every applicable in-place change x layouts / dtypes."""
    import hdc.algo  # noqa: F401

    from . import harness as H

    rng = np.random.default_rng([spec["seed"], 77, int(pid[1:]), spec.get("sub", 0)])
    if spec.get("mode") == "present":
        from . import present
        return present.shard(spec, R, pid)
    if pid == "C11":
        return shard_c11(spec, R, rng)
    for k in range(spec.get("concurrent", 2)):
        if R.out_of_time():
            break
        R.evaluation()
        R.case(True, "concurrent", pid, k, spec.get("sub", 0))
        concurrent_probe(R, pid, rng, nt=int(rng.choice([24, 36])))
    for it in range(spec["cases"]):
        if R.out_of_time():
            R.count("stopped_on_budget")
            break
        nt = int(rng.choice([9, 12, 24]))
        order = [("time", "y", "x"), ("y", "x", "time")][H.pick(it, 1, 2)]
        binary = pid == "C18"
        dtype = "uint8" if binary else ["int16", "int16", "float32" if pid in ("C07", "C08", "C09", "C10", "C15", "C16", "C17", "C19") else "int16"][H.pick(it, 2, 3)]
        if pid in ("C02", "C03", "C04", "C05", "C06") and H.pick(it, 2, 3) == 2:
            dtype = "float64"
        with_attr = pid in ("C20",) or bool(H.pick(it, 3, 3))
        ops = _ops(pid, rng, nt)
        name = list(ops)[H.pick(it, 4, len(ops))]
        da = _cube(rng, nt, dtype=dtype, order=order, with_attr=with_attr or pid in ("C16", "C17"), binary=binary)
        muts = []
        if not binary and np.dtype(dtype).kind != "f" or pid in ("C02", "C03", "C04", "C05", "C06", "C17", "C19"):
            muts.append(("cells flagged missing in place", flag_cells(rng, -9999)))
        if binary:
            muts.append(("cells changed in place", lambda d: d.values.__setitem__(tuple(rng.integers(0, s) for s in d.shape), 1)))
        if pid not in ("C02", "C03", "C04", "C05", "C06", "C18", "C19", "C20", "C11"):
            if "nodata" not in da.attrs:
                muts.append(("the nodata attribute added", set_attr("nodata", -9999)))
            muts.append(("missing cells re-encoded and the nodata attribute changed", recode_nodata(-1 if np.dtype(dtype).kind != "u" else 255)))
        if pid in ("C18", "C19", "C09", "C07"):
            muts.append(("the time coordinate re-assigned in another order", relabel_time(rng)))
        if np.dtype(dtype).kind == "f" and pid in ("C15", "C16", "C19"):
            muts.insert(0, ("NaN written into cells in place", flag_cells(rng, np.nan, share=0.15)))
        R.evaluation()
        R.case(True, "reuse", pid, name, dtype, order, it)
        if it % 4 == 0:
            ambient_probe(R, pid, f"{name} ({dtype}, dims {order})", da, ops[name], case={"dims": list(order), "dtype": dtype})
        first = list(ops)[H.pick(it, 5, len(ops))]
        R.count("reuse_first_use_by_another_operation" if first != name else "reuse_first_use_by_the_same_operation")
        probe(R, pid, f"{name} after {first} ({dtype}, dims {order})", da, ops[name], muts, first_op=ops[first],
              case={"cube": np.array(da.values, copy=True), "dims": list(order), "dtype": dtype, "attrs": {k: float(v) for k, v in da.attrs.items()}, "readonly": bool(H.pick(it, 6, 2))})


def shard_c11(spec, R, rng):
    """The .dekad accessor lives on a time DataArray; the object is the coordinate variable itself."""
    import pandas as pd
    import xarray as xr
    import hdc.algo  # noqa: F401

    from . import harness as H

    props = ["idx", "yidx", "ndays", "raw", "label", "start_date", "end_date", "year", "month"]
    for it in range(spec["cases"]):
        if R.out_of_time():
            break
        n = int(rng.choice([3, 6, 12, 40]))
        t0 = pd.Timestamp("2000-01-01") + pd.Timedelta(days=int(rng.integers(0, 9000)))
        times = pd.DatetimeIndex(t0 + pd.to_timedelta(np.cumsum(rng.integers(1, 15, n)), unit="D"))
        t = xr.DataArray(times, dims=["time"], coords={"time": times}, name="time")
        name = props[H.pick(it, 1, len(props))]
        first = props[H.pick(it, 2, len(props))]
        op = lambda d, nm=name: np.asarray(getattr(d.dekad, nm).values)
        fop = lambda d, nm=first: np.asarray(getattr(d.dekad, nm).values)

        def shift(d):
            new = pd.DatetimeIndex(d["time"].values) + pd.Timedelta(days=int(rng.integers(3, 40)))
            d["time"] = new

        R.evaluation()
        R.case(True, "reuse", "C11", name, it)
        probe(R, "C11", f".dekad.{name} after .dekad.{first}", t, op, [("the time coordinate shifted in place", shift)], first_op=fop, case={"times": [str(v) for v in times]})


# ---- concurrent independent uses ------------------------------------------------------------------------------------
def concurrent_probe(R, pid, rng, nt, rounds=3, nthreads=4):
    """Several threads use the SAME operation(s) of one property on DIFFERENT objects of the same shape and dtype at the
    same time (the kernels release the GIL).  Anything module-level that one call prepares and another overwrites - a
    scratch buffer kept per shape, a work area, a memo - shows as a result that differs from the same call made alone."""
    import threading

    ops = _ops(pid, rng, nt)
    names = list(ops)
    binary = pid == "C18"
    dtype = "uint8" if binary else ("float64" if pid in ("C02", "C03", "C05", "C06") and rng.random() < 0.5 else "int16")
    order = [("time", "y", "x"), ("y", "x", "time")][int(rng.integers(0, 2))]
    cubes, chosen = [], []
    k0 = int(rng.integers(0, len(names)))
    pair = (names[k0], names[(k0 + 1) % len(names)])  # two different parameterisations / features running side by side
    for i in range(nthreads):
        d = _cube(rng, nt, dtype=dtype, ny=12, nx=16, order=order, with_attr=True, binary=binary)
        if dtype == "float64":  # gaps marked by NaN (C02: a NaN cell is a missing cell for the fixed-lambda and GCV smoothers)
            v = d.values
            v[v == -9999] = np.nan if i % 2 else -9999
        cubes.append(d)
        chosen.append(pair[i % 2])
    ref = [outcome(ops[n], fresh(c)) for n, c in zip(chosen, cubes)]
    for rnd in range(rounds):
        got = [None] * nthreads
        barrier = threading.Barrier(nthreads)

        def work(i):
            d = fresh(cubes[i])
            barrier.wait()
            got[i] = outcome(ops[chosen[i]], d)

        th = [threading.Thread(target=work, args=(i,)) for i in range(nthreads)]
        for t in th:
            t.start()
        for t in th:
            t.join()
        R.count("concurrent_rounds")
        R.count("concurrent_calls", nthreads)
        for i in range(nthreads):
            if ref[i][0] == "ok":
                R.count("concurrent_calls_with_a_result")
            if not same(got[i], ref[i]):
                R.violation(f"{pid}:concurrent-calls", f"{chosen[i]} ({dtype}, dims {order}) called from {nthreads} threads at once on different cubes of the same shape: thread {i} got {describe(got[i])}, alone {describe(ref[i])}",
                            {"op": chosen[i], "dtype": dtype, "dims": list(order), "threads": nthreads, "cube": np.array(cubes[i].values, copy=True)})
                return False
    return True
