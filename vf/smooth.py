"""Shared machinery for the smoother properties (C02-C06, C20): kernel access, generators, tier-1/2 oracles."""

from __future__ import annotations

import importlib
import zlib
import math

import numpy as np

from .oracles import whittaker as W

VARIANTS = ["ws2dgu", "ws2dpgu", "ws2doptv", "ws2doptvp", "ws2doptvplc", "ws2dwcv", "ws2dwcvp"]
GRID_HI = np.arange(-2, 1.2, 0.2, dtype=np.float64)  # lc > 0.5
GRID_LO = np.arange(0, 3.2, 0.2, dtype=np.float64)  # lc <= 0.5 or NaN

_K = {}


def K(name):
    """The real kernels (compiled lazily on first call, from the tree under test)."""
    if name not in _K:
        if name == "ws2d":
            _K[name] = importlib.import_module("hdc.algo.ops.ws2d").ws2d
        elif name == "ws2doptvplc_tyx":
            _K[name] = importlib.import_module("hdc.algo.ops.ws2doptvplc").ws2doptvplc_tyx
        elif name in ("_ws2doptvp",):
            _K[name] = importlib.import_module("hdc.algo.ops.ws2doptvp")._ws2doptvp
        elif name in ("_ws2dwcvp",):
            _K[name] = importlib.import_module("hdc.algo.ops.ws2dwcvp")._ws2dwcvp
        elif name == "autocorr_1d":
            _K[name] = importlib.import_module("hdc.algo.ops.autocorr").autocorr_1d
        else:
            _K[name] = getattr(importlib.import_module("hdc.algo.ops"), name)
    return _K[name]


def ws2d_solver(y, lam, w):
    """Tier-1 solver: the repository's compiled core (certified separately by C01)."""
    return K("ws2d")(np.ascontiguousarray(y, dtype=np.float64), float(lam), np.ascontiguousarray(w, dtype=np.float64))


def dense_solver(y, lam, w):
    """Tier-2 solver: LAPACK banded Cholesky + extended-precision refinement (shares nothing with ws2d)."""
    return W.solve_float(y, lam, w)


# The recorder of the running shard / replay (set by vf.main): the boundary monitor of ``call`` reports through it.
MONITOR = {"R": None, "pid": None}
_FILL = 12345


def _fill_for(dt):
    """What surrounds the series in its buffer: a value a kernel reading past its strides would visibly pick up."""
    dt = np.dtype(dt)
    if dt.kind == "b":
        return True
    if dt.kind in "iu":
        return min(12345, int(np.iinfo(dt).max) - 1)
    return 12345


def present(y, dtype):
    """The series in the dtype the kernel's signature names (so NumPy hands the caller's own memory to the gufunc, no
    casting buffer) and in a memory layout chosen deterministically from the data: contiguous, every second element of a
    longer buffer, a reversed view, or a column of a 2-d array.  Returns (view, owning buffer, pristine copy, layout)."""
    a = np.ascontiguousarray(y, dtype=dtype)
    _FILL = _fill_for(a.dtype)
    if a.ndim != 1 or a.size == 0:
        c = a.copy()
        return c, c, a, "copy"
    n = a.size
    h = zlib.crc32(a.tobytes()) % 4
    if h == 0:
        buf = a.copy()
        return buf, buf, a, "contiguous"
    if h == 1:
        buf = np.full(2 * n + 3, _FILL, dtype=dtype)
        v = buf[1:1 + 2 * n:2]
        v[:] = a
        return v, buf, a, "strided"
    if h == 2:
        buf = np.full(n + 2, _FILL, dtype=dtype)
        buf[1:n + 1] = a[::-1]
        return buf[1:n + 1][::-1], buf, a, "reversed_view"
    buf = np.full((n, 3), _FILL, dtype=dtype)
    buf[:, 1] = a
    return buf[:, 1], buf, a, "column"


def call(variant, y, nodata, prm):
    """Run one real kernel on one series (or a batch, last axis = time).  Returns (band int16, lopt or None).

    Boundary monitor: the caller's array (and the buffer around it) must be bit-identical after the call."""
    k = K(variant)
    v, buf, pristine, layout = present(np.asarray(y), np.int16 if variant == "ws2doptvplc" else np.float64)
    before = buf.copy()
    if "llas" in prm and prm["llas"] is not None:
        # the grid, too, arrives in the signature dtype and in a data-dependent layout (a slice of a longer table)
        gv, gbuf, _, glayout = present(np.asarray(prm["llas"], dtype=np.float64) + 0.0, np.float64)
        gbefore = gbuf.copy()
        prm = dict(prm, llas=gv)
    else:
        gbuf = gbefore = None
        glayout = "none"
    if variant == "ws2dgu":
        res = k(v, prm["lam"], nodata), None
    elif variant == "ws2dpgu":
        res = k(v, prm["lam"], nodata, prm["p"]), None
    elif variant == "ws2doptv":
        res = k(v, nodata, np.asarray(prm["llas"], dtype=np.float64))
    elif variant == "ws2doptvp":
        res = k(v, nodata, prm["p"], np.asarray(prm["llas"], dtype=np.float64))
    elif variant == "ws2doptvplc":
        res = k(v, nodata, prm["p"], prm["lc"])
    elif variant == "ws2dwcv":
        res = k(v, nodata, np.asarray(prm["llas"], dtype=np.float64), bool(prm["robust"]))
    elif variant == "ws2dwcvp":
        res = k(v, nodata, prm["p"], np.asarray(prm["llas"], dtype=np.float64), bool(prm["robust"]))
    else:
        raise KeyError(variant)
    R = MONITOR["R"]
    if R is not None:
        R.count(f"input_layout_{layout}")
        R.count(f"grid_layout_{glayout}")
        R.count("input_unmodified_checks")
        if gbuf is not None and gbefore.tobytes() != gbuf.tobytes():
            R.violation(f"{MONITOR['pid']}:input-mutated", f"{variant}: the srange array ({glayout} layout) was modified by the call", {"variant": variant, "y": pristine, "nodata": nodata})
        if before.tobytes() != buf.tobytes():
            b0, b1 = before.ravel(), buf.ravel()
            same = (b0 == b1) | ((b0 != b0) & (b1 != b1))
            where = np.flatnonzero(~same)
            R.violation(f"{MONITOR['pid']}:input-mutated", f"{variant}: the caller's input array ({layout} layout) was modified by the call at buffer positions {where[:8].tolist()} (e.g. {b0[where[:3]].tolist()} -> {b1[where[:3]].tolist()})",
                        {"variant": variant, "y": pristine, "nodata": nodata, **{a: b for a, b in prm.items() if a in ("lam", "p", "llas", "robust", "lc")}})
    return res


def warm(variants):
    """Compile the kernels once (outside any timed section)."""
    y = np.array([5.0, 7, 6, 9, 8, 10, 9, 12], dtype=float)
    prm = {"lam": 10.0, "p": 0.7, "llas": np.arange(-1, 1.5, 0.5), "robust": True, "lc": 0.3}
    for v in variants:
        if v in VARIANTS:
            call(v, y, -1.0, prm)
        else:
            K(v)
    K("ws2d")(y, 1.0, np.ones_like(y))


# ----------------------------------------------------------------------------- generators
def gen_series(rng, n, kind=None, lim=10000):
    """Integer-valued series (the accessors' domain is int16) with |values| <= lim."""
    kind = kind or rng.choice(["noise", "season", "walk", "steps", "spiky", "smallrange", "neg", "flatspikes"])
    t = np.arange(n)
    if kind == "noise":
        y = rng.integers(-lim, lim + 1, n)
    elif kind == "season":
        a = rng.uniform(0.1, 0.45) * lim
        per = rng.choice([12, 23, 36, 46, 73])
        y = 0.5 * lim * rng.uniform(-0.5, 0.9) + a * np.sin(2 * np.pi * t / per + rng.uniform(0, 6.28)) + rng.normal(0, rng.uniform(0.002, 0.08) * lim, n)
    elif kind == "walk":
        y = np.cumsum(rng.normal(0, lim / 40.0, n))
    elif kind == "steps":
        y = np.repeat(rng.integers(-lim // 2, lim // 2, n // 5 + 1), 5)[:n] + rng.integers(-20, 21, n)
    elif kind == "spiky":
        y = np.full(n, float(rng.integers(-lim // 2, lim // 2))) + rng.integers(-3, 4, n)
        k = max(1, n // 10)
        y[rng.choice(n, k, replace=False)] += rng.integers(-lim // 3, lim // 3, k)
    elif kind == "flatspikes":  # exactly flat with a few spikes: more than half of all residuals are equal
        y = np.full(n, float(rng.integers(-lim // 2, lim // 2)))
        k = max(1, n // 12)
        y[rng.choice(n, k, replace=False)] += rng.integers(-lim // 3, lim // 3, k)
    elif kind == "smallrange":
        y = rng.integers(0, 8, n) + rng.integers(-100, 100)
    elif kind == "neg":
        y = -np.abs(rng.integers(1, lim + 1, n))
    else:
        raise ValueError(kind)
    return np.clip(np.round(y), -lim, lim).astype(np.float64)


def gen_mask(rng, n, kind=None, min_valid=2):
    """Boolean mask of missing cells."""
    kind = kind or rng.choice(["none", "isolated", "runs", "leading", "trailing", "allbut", "heavy"])
    m = np.zeros(n, dtype=bool)
    if kind == "isolated":
        k = int(rng.integers(1, max(2, n // 4)))
        m[rng.choice(n, min(k, n), replace=False)] = True
    elif kind == "runs":
        for _ in range(int(rng.integers(1, 4))):
            a = int(rng.integers(0, n))
            m[a:a + int(rng.integers(2, max(3, n // 3)))] = True
    elif kind == "leading":
        m[: int(rng.integers(1, max(2, n - 1)))] = True
    elif kind == "trailing":
        m[n - int(rng.integers(1, max(2, n - 1))):] = True
    elif kind == "allbut":
        k = int(rng.integers(0, 7))
        m[:] = True
        if k:
            m[rng.choice(n, min(k, n), replace=False)] = False
    elif kind == "heavy":
        m = rng.random(n) < rng.uniform(0.4, 0.85)
    if min_valid is not None and (~m).sum() < min_valid:
        idx = rng.choice(n, min_valid, replace=False)
        m[idx] = False
    return m


def gen_llas(rng, kind=None):
    kind = kind or rng.choice(["default_v", "default_gcv", "tests", "random", "random", "short"])
    if kind == "default_v":
        return GRID_LO.copy() if rng.random() < 0.5 else GRID_HI.copy()
    if kind == "default_gcv":
        return np.arange(-1.8, 4.2, 0.2)
    if kind == "tests":
        return np.arange(-2.0, 2.0)
    if kind == "short":
        k = int(rng.integers(2, 4))
        return rng.uniform(-3, 3) + rng.uniform(0.1, 1.5) * np.arange(k)
    # lambdas stay inside 10**[-6, 8], the range for which the core solver is certified (C01)
    k = int(rng.integers(3, 41))
    step = float(rng.choice([0.1, 0.2, 0.25, 0.5, 1.0, rng.uniform(0.05, 1.0)]))
    step = min(step, 12.0 / (k - 1))
    start = float(rng.uniform(-4, 3))
    hi = start + step * (k - 1)
    if hi > 6.5:
        start -= hi - 6.5
    start = max(start, -6.0)
    return start + step * np.arange(k)


def free_value(y_valid, lo=-32000, hi=32000, rng=None, inside=True):
    """A placeholder inside the data range that no valid cell takes."""
    vals = set(int(v) for v in y_valid)
    a, b = (int(min(y_valid)), int(max(y_valid))) if len(y_valid) else (0, 0)
    cands = [v for v in range(a, b + 1) if v not in vals] if inside and b - a < 70000 else []
    if cands:
        return float(cands[int(rng.integers(0, len(cands)))] if rng is not None else cands[0])
    return None


# ----------------------------------------------------------------------------- comparisons
def in_int16_claim(z):
    """The property excludes curves that leave the int16 range."""
    return bool(np.all(np.isfinite(z)) and np.max(np.abs(z)) <= 32766)


def band_matches(band, z_oracle, delta):
    """band == round_half_even(z) allowing +-1 only where z is within delta of a rounding tie."""
    exp = np.round(z_oracle)
    diff = band.astype(np.int64) - exp.astype(np.int64)
    if not np.any(diff):
        return True, 0, None
    frac = np.abs(z_oracle - np.floor(z_oracle) - 0.5)
    bad = (diff != 0) & ~((np.abs(diff) == 1) & (frac <= delta))
    if np.any(bad):
        i = int(np.argmax(bad))
        return False, int(np.sum(diff != 0)), i
    return True, int(np.sum(diff != 0)), None


def rel_tied(a, b, tol=1e-9):
    return abs(a - b) <= tol * max(abs(a), abs(b), 1e-300)
