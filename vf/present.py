"""Presentation monitors: an accessor result is a function of the *content* handed over, not of how it is presented,
spelled, or of what happened to the process before.

Three metamorphic monitors over the per-property operation tables of ``vf.reuse``:

* ``container_probe``  - the same content in another legal container (Fortran order, strided view of a larger buffer,
  swapped byte order, read-only broadcast view, extra scalar / 2-d / along-time coordinates, pixel dimensions with other
  names, time stamps in another datetime64 unit, the nodata attribute as a NumPy scalar or float, a Dataset variable with
  an encoding, one pixel row on its own) gives the same result;
* ``spelling_probe``   - the same parameter values spelled as NumPy scalars, 0-d arrays, lists, other integer widths;
* ``failure_probe``    - refused calls, failed calls and abandoned generators (on the same object and elsewhere in the
  process, also as the very first call of a lazily compiled kernel) leave nothing behind: the ordinary call made
  afterwards returns what it returned before.

Variants marked *lenient* may be refused (an exception) - byte orders and parameter spellings the library never promised -
but may not return something else; strict variants must return the reference result.
"""

from __future__ import annotations

import numpy as np

from .reuse import _cube, _ops, describe, fresh, outcome, same

ND = -9999


def _pixdims(d):
    return [k for k in d.dims if k != "time"]


def _rebuild(da, values):
    import xarray as xr

    coords = {k: (v.dims, np.array(v.values, copy=True)) for k, v in da.coords.items()}
    return xr.DataArray(values, dims=da.dims, coords=coords, attrs=dict(da.attrs), name=da.name)


def _isel_result(res, **sel):
    import xarray as xr

    if isinstance(res, (xr.DataArray, xr.Dataset)):
        return res.isel({k: v for k, v in sel.items() if k in res.dims})
    if isinstance(res, list):
        return [_isel_result(r, **sel) for r in res]
    return res


def _rename_result(res, mapping):
    import xarray as xr

    if isinstance(res, (xr.DataArray, xr.Dataset)):
        return res.rename({k: v for k, v in mapping.items() if k in res.dims})
    if isinstance(res, list):
        return [_rename_result(r, mapping) for r in res]
    return res


def containers(da, rng, pixelwise):
    """(label, build() -> DataArray, ref_of(ref_result) -> result to hold it to | None, post(result) -> result, strict)"""
    vals = np.array(da.values, copy=True)
    out = []

    out.append(("Fortran-ordered memory", lambda: _rebuild(da, np.asfortranarray(vals)), None, None, True))

    def strided():
        big = np.full(tuple(2 * s + 1 for s in vals.shape), 12345, dtype=vals.dtype)
        view = big[tuple(slice(1, None, 2) for _ in vals.shape)]
        view[...] = vals
        return _rebuild(da, view)
    out.append(("a strided view of a larger buffer", strided, None, None, True))

    def reversed_mem():
        big = np.ascontiguousarray(vals[tuple(slice(None, None, -1) for _ in vals.shape)])
        return _rebuild(da, big[tuple(slice(None, None, -1) for _ in vals.shape)])
    out.append(("negative strides along every axis", reversed_mem, None, None, True))

    if vals.dtype.itemsize > 1:
        out.append(("non-native byte order", lambda: _rebuild(da, vals.astype(vals.dtype.newbyteorder("S"))), None, None, False))

    def extra_coords():
        d = fresh(da)
        py, px = _pixdims(d)
        return d.assign_coords(level=7, spatial_ref=0, lat=((py, px), rng.random((d.sizes[py], d.sizes[px]))), doy=("time", np.arange(d.sizes["time"]) % 36),
                               row_name=(py, [f"r{i}" for i in range(d.sizes[py])]))
    out.append(("extra scalar, 2-d, along-time and string coordinates", extra_coords, None, None, True))

    def renamed():
        d = fresh(da)
        py, px = _pixdims(d)
        return d.rename({py: "latitude", px: "Longitude"})
    py0, px0 = _pixdims(da)
    out.append(("pixel dimensions named latitude / Longitude", renamed, None, lambda r: _rename_result(r, {"latitude": py0, "Longitude": px0}), True))

    for unit in ("s", "us"):
        def other_unit(unit=unit):
            d = fresh(da)
            return d.assign_coords(time=d["time"].values.astype(f"datetime64[{unit}]"))
        out.append((f"time stamps as datetime64[{unit}]", other_unit, None, None, True))

    if "nodata" in da.attrs:
        nd = da.attrs["nodata"]
        spellings = [] if vals.dtype.kind in "iu" and not (np.iinfo(vals.dtype).min <= nd <= np.iinfo(vals.dtype).max) else [("a NumPy scalar of the data's dtype", vals.dtype.type(nd)), ("a NumPy int64 / float64 scalar", np.float64(nd) if vals.dtype.kind == "f" else np.int64(nd))]
        if vals.dtype.kind in "iu":
            spellings.append(("a Python float", float(nd)))
        for lab, v in spellings:
            def attr_spelled(v=v):
                d = fresh(da)
                d.attrs["nodata"] = v
                return d
            out.append((f"the nodata attribute given as {lab}", attr_spelled, None, None, True))

    def from_dataset():
        import xarray as xr

        ds = xr.Dataset({da.name or "band": fresh(da), "other": fresh(da) * 0})
        d = ds[da.name or "band"]
        d.encoding = {"dtype": str(vals.dtype), "_FillValue": da.attrs.get("nodata", -1), "chunksizes": (1,) * vals.ndim, "source": "/data/x.nc"}
        d.attrs["long_name"] = "a variable of a Dataset"
        d.attrs["scale_factor"] = 1.0
        return d
    out.append(("a variable of a Dataset with an encoding and further attributes", from_dataset, None, None, True))

    if pixelwise:
        j = int(rng.integers(0, da.sizes[py0]))
        i = int(rng.integers(0, da.sizes[px0]))
        out.append((f"pixel row {j} on its own (a dimension of size 1)", lambda: fresh(da.isel({py0: [j]})), lambda r: _isel_result(r, **{py0: [j]}), None, True))
        out.append((f"pixel ({j}, {i}) on its own (two dimensions of size 1)", lambda: fresh(da.isel({py0: [j], px0: [i]})), lambda r: _isel_result(r, **{py0: [j], px0: [i]}), None, True))

        def broadcast_view():
            col = np.ascontiguousarray(np.take(vals, [i], axis=da.dims.index(px0)))
            v = np.broadcast_to(col, vals.shape)  # zero stride along x, read-only
            return _rebuild(da, v)

        def broadcast_ref(r, i=i):
            one = _isel_result(r, **{px0: [i]})
            return _tile(one, px0, da.sizes[px0])
        out.append((f"a read-only broadcast view (zero stride) of column {i}", broadcast_view, broadcast_ref, None, True))
    return out


def _tile(res, dim, n):
    import xarray as xr

    if isinstance(res, xr.Dataset):
        return xr.Dataset({k: _tile(res[k], dim, n) for k in res.data_vars})
    if isinstance(res, xr.DataArray):
        if dim not in res.dims:
            return res
        return xr.concat([res] * n, dim=dim).transpose(*res.dims)
    if isinstance(res, list):
        return [_tile(r, dim, n) for r in res]
    return res


def container_probe(R, pid, name, da, op, rng, pixelwise, case=None):
    ref = outcome(op, fresh(da))
    if ref[0] != "ok":
        R.count("present_reference_raises")
        return True
    for label, build, ref_of, post, strict in containers(da, rng, pixelwise):
        try:
            d = build()
        except Exception as e:  # the container cannot be built with this xarray / numpy (never the tree under test)
            R.count(f"present_container_not_buildable:{label.split('(')[0].strip()[:40]}:{type(e).__name__}")
            continue
        want = ref if ref_of is None else ("ok", ref_of(ref[1]))
        got = outcome(op, d)
        if got[0] == "ok" and post is not None:
            got = ("ok", post(got[1]))
        R.count("present_container_probes")
        tag = label.split(" (")[0]
        tag = "pixel row on its own" if tag.startswith("pixel row") else "pixel on its own" if tag.startswith("pixel (") else "broadcast view" if tag.startswith("a read-only broadcast") else tag
        R.count(f"present_container:{tag}")
        if got[0] == "raise" and not strict:
            R.count(f"present_refused:{tag}:{got[1]}")
            continue
        if not same(got, want):
            R.violation(f"{pid}:container", f"{name}: handed {label} the result is {describe(got)}, for the same content in a plain C-ordered array {describe(want)}",
                        dict(case or {}, op=name, container=label))
            return False
    return True


# ---- laziness --------------------------------------------------------------------------------------------------------
def _lazy_vars(res):
    import xarray as xr

    if isinstance(res, xr.Dataset):
        return [(k, res[k]) for k in sorted(res.data_vars)]
    if isinstance(res, xr.DataArray):
        return [("", res)]
    if isinstance(res, list):
        out = []
        for i, r in enumerate(res):
            out.extend((f"{i}:{k}", v) for k, v in _lazy_vars(r))
        return out
    return []


def _other_cube(da, rng):
    """Same shape, dtype, coordinates and attributes, other content."""
    v = np.array(da.values, copy=True)
    nd = da.attrs.get("nodata", ND)
    if v.dtype.kind == "u":
        v = (1 - v).astype(v.dtype) if v.max() <= 1 else v[::-1].copy()
    else:
        keep = v == nd
        v = np.where(keep, v, (7000 - v).astype(v.dtype) if v.dtype.kind in "iu" else (7000.5 - v).astype(v.dtype))
    v = np.ascontiguousarray(np.flip(v, axis=da.dims.index("time")))
    return _rebuild(da, v)


def lazy_probe(R, pid, name, da, ops, opname, rng, pixelwise, case=None):
    """The same operation on a dask-backed cube: every chunking of the pixel dimensions, the whole result or only a slice of
    it, persisted first, two results in one graph, a chunked time axis (same result or a refusal)."""
    import dask

    op = ops[opname]
    ref = outcome(op, fresh(da))
    if ref[0] != "ok":
        R.count("present_reference_raises")
        return True
    py, px = _pixdims(da)
    ny, nx = da.sizes[py], da.sizes[px]
    chunkings = [("one pixel per chunk", {py: 1, px: 1}), ("ragged chunks", {py: (1, ny - 1) if ny > 1 else -1, px: (nx - 1, 1) if nx > 1 else -1}), ("a single chunk", {py: -1, px: -1})]
    scheds = ["synchronous", "threads"]
    for i, (label, ck) in enumerate(chunkings):
        d = fresh(da).chunk(dict(ck, time=-1))
        sched = scheds[i % 2]

        def run(d=d, sched=sched):
            lazy = op(d)
            declared = [(k, v.dtype) for k, v in _lazy_vars(lazy)]
            with dask.config.set(scheduler=sched):
                (computed,) = dask.compute(lazy)
            return computed, declared
        got = outcome(lambda _d: run(), d)
        R.count("present_lazy_probes")
        R.count(f"present_lazy:{label}")
        if got[0] == "ok":
            computed, declared = got[1]
            got = ("ok", computed)
            for (k, dt), (k2, v) in zip(declared, _lazy_vars(computed)):
                if dt != v.dtype:
                    R.violation(f"{pid}:lazy-dtype", f"{name} on a dask-backed cube ({label}): variable '{k or 'result'}' is declared {dt} and computes to {v.dtype}", dict(case or {}, op=name, chunking=label))
                    return False
        if not same(got, ref):
            R.violation(f"{pid}:lazy", f"{name} on a dask-backed cube ({label}, {sched} scheduler): {describe(got)}; in memory {describe(ref)}", dict(case or {}, op=name, chunking=label))
            return False
    d = fresh(da).chunk({py: 1, px: -1, "time": -1})
    if pixelwise:
        j = int(rng.integers(0, ny))
        got = outcome(lambda _d: dask.compute(_isel_result(op(_d), **{py: [j]}))[0], d)
        R.count("present_lazy_slice_probes")
        if not same(got, ("ok", _isel_result(ref[1], **{py: [j]}))):
            R.violation(f"{pid}:lazy-slice", f"{name}: computing only row {j} of the lazy result gives {describe(got)}; that row of the in-memory result {describe(('ok', _isel_result(ref[1], **{py: [j]})))}", dict(case or {}, op=name))
            return False
    got = outcome(lambda _d: dask.compute(op(_d.persist()))[0], d)
    R.count("present_lazy_persist_probes")
    if not same(got, ref):
        R.violation(f"{pid}:lazy", f"{name} on a persisted dask-backed cube: {describe(got)}; in memory {describe(ref)}", dict(case or {}, op=name, chunking="persisted"))
        return False
    # two lazy results in one graph: another cube of the same shape and, when the table has one, another parameterisation
    names = list(ops)
    other = names[(names.index(opname) + 1) % len(names)]
    db = _other_cube(da, rng)
    for oname, dd in ((opname, db), (other, fresh(da)), (other, db)):
        refb = outcome(ops[oname], fresh(dd))
        if refb[0] != "ok":
            continue

        def joint(_d, oname=oname, dd=dd):
            la = op(fresh(da).chunk({py: 1, px: -1, "time": -1}))
            lb = ops[oname](fresh(dd).chunk({py: 1, px: -1, "time": -1}))
            return dask.compute(la, lb)
        got = outcome(joint, d)
        R.count("present_lazy_joint_graphs")
        if got[0] != "ok":
            R.violation(f"{pid}:lazy-joint", f"{name} and {oname} computed in one graph: raises {got[1]}", dict(case or {}, op=name, other=oname))
            return False
        ga, gb = got[1]
        if not same(("ok", ga), ref) or not same(("ok", gb), refb):
            which = name if not same(("ok", ga), ref) else f"{oname} (second result)"
            R.violation(f"{pid}:lazy-joint", f"{name} and {oname}{' on another cube of the same shape' if dd is db else ''} computed by one dask.compute: {which} differs from the result computed alone: "
                        f"{describe(('ok', ga))} / {describe(('ok', gb))}; alone {describe(ref)} / {describe(refb)}", dict(case or {}, op=name, other=oname))
            return False
    # a chunked time axis is honoured or refused
    nt = da.sizes["time"]
    got = outcome(lambda _d: dask.compute(op(_d))[0], fresh(da).chunk({"time": max(1, nt // 3), py: -1, px: -1}))
    R.count("present_lazy_time_chunked_probes")
    if got[0] == "raise":
        R.count(f"present_lazy_time_chunked_refused:{got[1]}")
    elif not same(got, ref):
        R.violation(f"{pid}:lazy-time-chunks", f"{name} on a cube chunked along time neither refuses nor gives the in-memory result: {describe(got)}; in memory {describe(ref)}", dict(case or {}, op=name))
        return False
    return True


def late_mutation_probe(R, pid, name, da, rng, nt, opname, case=None):
    """A lazy result is the result of the call that built it: arrays the caller handed over as parameters (group labels, a
    lambda grid, labels and template of the interpolation) may be overwritten - a buffer reused for the next call -
    between the call and ``compute()``; in memory the call has long finished by then, dask-backed it must not matter."""
    import dask

    ref = outcome(_ops(pid, rng, nt)[opname], fresh(da))
    if ref[0] != "ok":
        return True
    op2 = _ops(pid, rng, nt)[opname]  # a table of its own: the arrays its operations close over are private to this probe
    arrays = [c.cell_contents for c in (op2.__closure__ or ()) if isinstance(c.cell_contents, np.ndarray) and c.cell_contents.flags.writeable and c.cell_contents.size > 1]
    if not arrays:
        R.count("present_late_mutation_no_array_parameter")
        return True
    py, px = _pixdims(da)
    try:
        lazy = op2(fresh(da).chunk({py: 1, px: -1, "time": -1}))
    except Exception as e:  # noqa: BLE001
        R.violation(f"{pid}:lazy", f"{name} on a dask-backed cube raises {type(e).__name__}", dict(case or {}, op=name))
        return False
    for a in arrays:
        if a.dtype.kind in "iu" and a.ndim == 1 and np.any(a != a[0]):
            j = int(np.flatnonzero(a != a[0])[0])  # swap two different labels: reversing or rolling 0,1,2,0,1,2 would only
            a[0], a[j] = a[j], a[0]                # relabel the same partition
        elif a.dtype.kind == "f":
            a[...] = a * 1.37 + 0.11
        else:
            a[...] = 0
    got = outcome(lambda _d: dask.compute(lazy)[0], da)
    R.count("present_late_mutation_probes")
    if not same(got, ref):
        R.violation(f"{pid}:lazy-late-binding", f"{name}: the lazy result was built, then the caller's parameter arrays ({', '.join(str(a.shape) for a in arrays)}) were overwritten, then it was computed: "
                    f"{describe(got)}; the call made in memory {describe(ref)}", dict(case or {}, op=name))
        return False
    return True


# ---- parameter spellings -------------------------------------------------------------------------------------------
def spellings(pid, rng, nt):
    """{op name: [(label, fn, strict)]}: the same call with its parameter values spelled differently."""
    import pandas as pd
    import xarray as xr

    srange = np.arange(-1.0, 2.0, 0.5)
    groups = (np.arange(nt) % 3).astype("int16")
    sr32 = srange.astype("float32")
    big = np.full(2 * srange.size, 99.0)
    big[::2] = srange
    S = {}
    if pid in ("C02", "C03", "C06"):
        S["whits"] = [("nodata=np.int16, s=np.float32", lambda d: d.hdc.whit.whits(nodata=np.int16(ND), s=np.float32(10.0)), True),
                      ("s as a 0-d array, nodata as float", lambda d: d.hdc.whit.whits(nodata=float(ND), s=np.array(10.0)), True),
                      ("s as a Python int", lambda d: d.hdc.whit.whits(nodata=ND, s=10), True),
                      ("sg = log10(s) instead of s", lambda d: d.hdc.whit.whits(nodata=ND, sg=xr.DataArray(np.ones((d.sizes[_pixdims(d)[0]], d.sizes[_pixdims(d)[1]])), dims=_pixdims(d))), False)]
        S["whits_p"] = [("p=np.float64, s=np.float64", lambda d: d.hdc.whit.whits(nodata=np.int64(ND), s=np.float64(10.0), p=np.float64(0.8)), True),
                        ("p as np.float32(0.5)*1.6", lambda d: d.hdc.whit.whits(nodata=ND, s=10.0, p=float(np.float64(0.8))), True)]
    if pid in ("C02", "C04", "C06"):
        S["whitsvc"] = [("srange as a strided view", lambda d: d.hdc.whit.whitsvc(nodata=ND, srange=big[::2]), True),
                        ("srange as float32", lambda d: d.hdc.whit.whitsvc(nodata=ND, srange=sr32), False),
                        ("srange as a list", lambda d: d.hdc.whit.whitsvc(nodata=ND, srange=[float(v) for v in srange]), False),
                        ("nodata=np.int16", lambda d: d.hdc.whit.whitsvc(nodata=np.int16(ND), srange=srange.copy()), True)]
        S["whitsvc_p"] = [("p=np.float64, srange Fortran/readonly", lambda d: d.hdc.whit.whitsvc(nodata=ND, srange=_ro(srange + (0.25 if pid == "C04" else 0.0)), p=np.float64(0.8)), True)]
    if pid in ("C02", "C05", "C06"):
        S["whitswcv"] = [("robust=np.bool_(False), srange strided", lambda d: d.hdc.whit.whitswcv(nodata=ND, srange=big[::2], robust=np.bool_(False)), True),
                         ("robust=0, nodata=np.int16", lambda d: d.hdc.whit.whitswcv(nodata=np.int16(ND), srange=srange, robust=0), False)]
        S["whitswcv_robust_p"] = [("p=np.float64, srange read-only", lambda d: d.hdc.whit.whitswcv(nodata=ND, srange=_ro(srange), p=np.float64(0.8)), True),
                                  ("robust=True explicitly", lambda d: d.hdc.whit.whitswcv(nodata=ND, srange=srange, p=0.8, robust=True), True)]
    if pid in ("C07", "C08", "C09"):
        gs = [str(g) for g in groups]
        S["spi_grouped"] = [("groups as a NumPy str array", lambda d: d.hdc.algo.spi(groups=np.array(gs)), True),
                            ("groups as a tuple", lambda d: d.hdc.algo.spi(groups=tuple(gs)), False),
                            ("groups as a pandas Index", lambda d: d.hdc.algo.spi(groups=pd.Index(gs)), False),
                            ("groups as an object array", lambda d: d.hdc.algo.spi(groups=np.array(gs, dtype=object)), False)]
        S["spi_window"] = [("window bounds as pandas Timestamps", lambda d: d.hdc.algo.spi(calibration_begin=pd.Timestamp(str(d.time.values.min())[:10]), calibration_end=pd.Timestamp(str(np.sort(d.time.values)[-3])[:10])), False),
                           ("window bounds as numpy datetime64[D]", lambda d: d.hdc.algo.spi(calibration_begin=np.datetime64(str(d.time.values.min())[:10]), calibration_end=np.datetime64(str(np.sort(d.time.values)[-3])[:10])), False)]
        S["spi"] = [("calibration bounds None explicitly", lambda d: d.hdc.algo.spi(calibration_begin=None, calibration_end=None, groups=None), True)]
    if pid == "C16":
        def zm(zdt, ids):
            def f(d):
                py, px = _pixdims(d)
                zones = xr.DataArray((np.arange(d.sizes[py] * d.sizes[px]).reshape(d.sizes[py], d.sizes[px]) % 3).astype(zdt), dims=[py, px], attrs={"nodata": -1 if np.dtype(zdt).kind == "i" else 255})
                return d.hdc.zonal.mean(zones, ids)
            return f
        S["zonal_mean"] = [("zone ids as an int64 array", zm("int16", np.array([0, 1, 2])), True), ("zone ids as a tuple", zm("int16", (0, 1, 2)), False), ("zone ids as a range", zm("int16", range(3)), False),
                           ("zones as int32", zm("int32", [0, 1, 2]), True), ("zones as int64", zm("int64", [0, 1, 2]), False), ("zones as uint8", zm("uint8", [0, 1, 2]), False),
                           ("zone ids as NumPy scalars", zm("int16", [np.int16(0), np.int64(1), np.uint8(2)]), False)]
    if pid == "C17":
        S["rolling_sum"] = [("window as np.int64", lambda d: d.hdc.rolling.sum(np.int64(3)), True), ("window as np.int16", lambda d: d.hdc.rolling.sum(np.int16(3)), False),
                            ("window as a 0-d array", lambda d: d.hdc.rolling.sum(np.array(3)), False)]
        S["mean_grp"] = [("groups as int64", lambda d: d.hdc.algo.mean_grp(groups.astype("int64")), False), ("groups as a list", lambda d: d.hdc.algo.mean_grp([int(g) for g in groups]), False),
                         ("groups as a strided view", lambda d: d.hdc.algo.mean_grp(np.repeat(groups, 2)[::2]), True), ("groups as uint8", lambda d: d.hdc.algo.mean_grp(groups.astype("uint8")), False)]
    if pid == "C19":
        S["iteragg_sum"] = [("n as np.int64", lambda d: list(d.hdc.iteragg.sum(np.int64(2))), True), ("n as np.int16", lambda d: list(d.hdc.iteragg.sum(np.int16(2))), False),
                            ("begin / end None explicitly", lambda d: list(d.hdc.iteragg.sum(2, begin=None, end=None)), True)]
        S["iteragg_mean"] = [("begin as a pandas Timestamp", lambda d: list(d.hdc.iteragg.mean(3, begin=pd.Timestamp(d.time.values[-2]))), False),
                             ("begin as an ISO string", lambda d: list(d.hdc.iteragg.mean(3, begin=str(d.time.values[-2]))), False),
                             ("begin as datetime64[s]", lambda d: list(d.hdc.iteragg.mean(3, begin=d.time.values[-2].astype("datetime64[s]"))), False)]
    if pid == "C20":
        m = 10 * (nt - 1) + 1
        template = np.zeros(m)
        template[::10] = 1
        labels = (np.arange(m) // 7).astype(np.int32)
        S["whitint"] = [("labels as int64", lambda d: d.hdc.whit.whitint(labels.astype("int64"), template), False), ("labels as a list", lambda d: d.hdc.whit.whitint([int(v) for v in labels], template), False),
                        ("labels / template as strided views", lambda d: d.hdc.whit.whitint(np.repeat(labels, 2)[::2], np.repeat(template, 2)[::2]), True),
                        ("template read-only", lambda d: d.hdc.whit.whitint(labels, _ro(template)), True), ("template as int16", lambda d: d.hdc.whit.whitint(labels, template.astype("int16")), False),
                        ("labels as int16", lambda d: d.hdc.whit.whitint(labels.astype("int16"), template), False)]
    return S


def _ro(a):
    a = np.array(a, copy=True)
    a.setflags(write=False)
    return a


def spelling_probe(R, pid, name, da, op, alts, case=None):
    ref = outcome(op, fresh(da))
    for label, fn, strict in alts:
        got = outcome(fn, fresh(da))
        R.count("present_spelling_probes")
        R.count(f"present_spelling:{name}:{label}")
        if got[0] == "raise" and ref[0] == "ok" and not strict:
            R.count(f"present_refused:{name}:{label}:{got[1]}")
            continue
        if not same(got, ref):
            R.violation(f"{pid}:spelling", f"{name} with {label}: {describe(got)}; with the plain spelling {describe(ref)}", dict(case or {}, op=name, spelling=label))
            return False
    return True


# ---- failures leave nothing behind ------------------------------------------------------------------------------------
def failures(pid, rng, nt, ops, name):
    """Calls that are refused, fail, or are abandoned half-way.  Everything here is stopped by argument / dimension /
    dtype checks of the accessor, xarray or the gufunc dispatcher - nothing is sent into a kernel out of contract."""
    import xarray as xr

    op = ops[name]
    F = [("the operation on a complex cube", lambda d: op(_rebuild(d, d.values.astype("complex64")))),
         ("the operation on a cube of strings", lambda d: op(_rebuild(d, d.values.astype("U8")))),
         ("the operation on a cube whose time dimension is called t", lambda d: op(fresh(d).rename(time="t"))),
         ("the operation on a 2-d raster", lambda d: op(fresh(d).isel(time=0, drop=True))),
         ("the operation interrupted by KeyboardInterrupt-like exception in a coordinate", lambda d: op(_Exploding(d)))]
    if pid in ("C02", "C03", "C04", "C05", "C06"):
        F += [("whits without s and sg", lambda d: d.hdc.whit.whits(nodata=ND)),
              ("whits with another nodata and p='high'", lambda d: d.hdc.whit.whits(nodata=7, s=10.0, p="high")),
              ("whitsvc with another nodata and a grid of strings", lambda d: d.hdc.whit.whitsvc(nodata=7, srange=np.array(["a", "b", "c"]), p=0.9)),
              ("whitswcv with another nodata and a 2-d grid", lambda d: d.hdc.whit.whitswcv(nodata=7, srange=np.zeros((2, 2)), robust=False)),
              ("whits with p='high'", lambda d: d.hdc.whit.whits(nodata=ND, s=10.0, p="high")),
              ("whitsvc with a grid of strings", lambda d: d.hdc.whit.whitsvc(nodata=ND, srange=np.array(["a", "b", "c"]))),
              ("whitsvc with an lc raster on other dimensions", lambda d: d.hdc.whit.whitsvc(nodata=ND, lc=xr.DataArray(np.full((3, 3), 0.9), dims=["u", "v"]))),
              ("whitswcv with a 2-d grid", lambda d: d.hdc.whit.whitswcv(nodata=ND, srange=np.zeros((2, 2)))),
              ("whits with an sg raster of the wrong shape", lambda d: d.hdc.whit.whits(nodata=ND, sg=xr.DataArray(np.ones((7, 5)), dims=_pixdims(d))))]
    if pid in ("C07", "C08", "C09"):
        F += [("spi with an empty calibration window", lambda d: d.hdc.algo.spi(calibration_begin="2099-01-01")),
              ("spi with another nodata, another dtype and an empty calibration window", lambda d: d.hdc.algo.spi(calibration_begin="2099-01-01", nodata=7, dtype="float32")),
              ("grouped spi with another nodata and too few group labels", lambda d: d.hdc.algo.spi(groups=["a", "b"], nodata=7)),
              ("spi with a reversed calibration window", lambda d: d.hdc.algo.spi(calibration_begin=str(np.sort(d.time.values)[-2])[:10], calibration_end=str(np.sort(d.time.values)[1])[:10])),
              ("spi with too few group labels", lambda d: d.hdc.algo.spi(groups=["a", "b"])),
              ("grouped spi with a window of one step", lambda d: d.hdc.algo.spi(groups=[str(i % 3) for i in range(d.sizes["time"])], calibration_begin=str(np.sort(d.time.values)[0])[:10], calibration_end=str(np.sort(d.time.values)[0])[:10])),
              ("spi with an unparsable bound", lambda d: d.hdc.algo.spi(calibration_begin="not a date"))]
    if pid == "C10":
        F += [("mktrend on a string cube", lambda d: _rebuild(d, d.values.astype("U8")).hdc.algo.mktrend()),
              ("mktrend on a cube with an unusable nodata attribute", lambda d: fresh(d).assign_attrs(nodata="none").hdc.algo.mktrend())]
    if pid == "C16":
        F += [("zonal mean with zones on other dimensions", lambda d: d.hdc.zonal.mean(xr.DataArray(np.zeros((2, 2), "int16"), dims=["u", "v"], attrs={"nodata": -1}), [0])),
              ("zonal mean with zones lacking a nodata attribute", lambda d: d.hdc.zonal.mean(xr.DataArray(np.zeros((d.sizes[_pixdims(d)[0]], d.sizes[_pixdims(d)[1]]), "int16"), dims=_pixdims(d)), [0])),
              ("zonal mean with a zones raster of another shape", lambda d: d.hdc.zonal.mean(xr.DataArray(np.zeros((d.sizes[_pixdims(d)[0]] + 1, d.sizes[_pixdims(d)[1]]), "int16"), dims=_pixdims(d), attrs={"nodata": -1}), [0]))]
    if pid == "C17":
        F += [("rolling sum with a window given as text", lambda d: d.hdc.rolling.sum("three")),
              ("rolling sum with another nodata over a dimension that does not exist", lambda d: d.hdc.rolling.sum(3, dimension="depth", nodata=7)),
              ("rolling sum with another nodata and a window given as text", lambda d: d.hdc.rolling.sum("three", nodata=-1)),
              ("mean_grp with another nodata and labels of an unsupported type", lambda d: d.hdc.algo.mean_grp(np.array(["a"] * d.sizes["time"]), nodata=7)),
              ("mean_grp with another nodata and too few group labels", lambda d: d.hdc.algo.mean_grp(np.zeros(2, "int16"), nodata=-1)),
              ("mean_grp with too few group labels", lambda d: d.hdc.algo.mean_grp(np.zeros(2, "int16"))),
              ("rolling sum over a dimension that does not exist", lambda d: d.hdc.rolling.sum(3, dimension="depth"))]
    if pid == "C19":
        F += [("an iteragg generator advanced once and dropped", lambda d: next(iter(d.hdc.iteragg.sum(2)))),
              ("an iteragg generator advanced twice and closed", lambda d: _advance_and_close(d.hdc.iteragg.mean(2), 2)),
              ("iteragg with an unlocatable begin", lambda d: list(d.hdc.iteragg.sum(2, begin="1875-01-01"))),
              ("iteragg with n larger than the axis", lambda d: list(d.hdc.iteragg.sum(d.sizes["time"] + 5))),
              ("iteragg with a consumer that raises half-way", lambda d: _consume_and_raise(d.hdc.iteragg.sum(2)))]
    if pid == "C20":
        m = 10 * (nt - 1) + 1
        template = np.zeros(m)
        template[::10] = 1
        labels = (np.arange(m) // 7).astype(np.int32)
        F += [("whitint with too few labels", lambda d: d.hdc.whit.whitint(labels[:-3], template)),
              ("whitint on a float cube", lambda d: _rebuild(d, d.values.astype("float32")).hdc.whit.whitint(labels, template)),
              ("whitint with a template of strings", lambda d: d.hdc.whit.whitint(labels, template.astype("U4")))]
    if pid == "C18":
        F += [("croo on a cube without a time coordinate", lambda d: fresh(d).drop_vars("time").hdc.algo.croo())]
    if pid == "C15":
        F += [("autocorr on a 4-d cube", lambda d: fresh(d).expand_dims(band=2).hdc.algo.autocorr())]
    return F


class _Boom(Exception):
    pass


def _Exploding(d):
    """A DataArray whose values raise when they are first converted: the operation fails after the accessor was built."""
    import xarray as xr

    class Lazy:
        def __init__(self, a):
            self.shape, self.dtype, self.ndim = a.shape, a.dtype, a.ndim

        def __getitem__(self, key):
            raise _Boom("backend read failed")

        def __array__(self, dtype=None, copy=None):
            raise _Boom("backend read failed")

    import xarray.core.indexing as xi
    v = xr.Variable(d.dims, xi.LazilyIndexedArray(Lazy(d.values)))
    return xr.DataArray(v, coords={k: (c.dims, np.array(c.values, copy=True)) for k, c in d.coords.items()}, attrs=dict(d.attrs), name=d.name)


def _advance_and_close(gen, k):
    gen = iter(gen)
    for _ in range(k):
        next(gen)
    gen.close()


def _consume_and_raise(gen):
    for i, _ in enumerate(gen):
        if i == 1:
            raise _Boom("consumer failed")


def rearm_lazy_kernels():
    """Forget every lazily compiled kernel (the cell that caches the compiled object), so the next call is a first call."""
    import hdc.algo.ops as ops
    import hdc.algo.ops.stats as stats

    n = 0
    seen = set()
    for mod in (ops, stats):
        for nm in dir(mod):
            f = getattr(mod, nm, None)
            code, clo = getattr(f, "__code__", None), getattr(f, "__closure__", None)
            if code is None or not clo or id(f) in seen or "inner_decorated" not in code.co_freevars:
                continue
            seen.add(id(f))
            cell = clo[code.co_freevars.index("inner_decorated")]
            try:
                if cell.cell_contents is not None:
                    cell.cell_contents = None
                    n += 1
            except ValueError:
                pass
    return n


def failure_probe(R, pid, opname, da, ops, rng, nt, case=None, first_call=False, name=None):
    op = ops[opname]
    name = name or opname
    ref = outcome(op, fresh(da))
    F = failures(pid, rng, nt, ops, opname)
    order = rng.permutation(len(F))
    if first_call:
        k = rearm_lazy_kernels()
        R.count("present_lazy_kernels_forgotten", k)
        if k == 0:
            R.count("present_rearm_found_nothing")
    for j in order[: 4 if not first_call else 2]:
        label, fn = F[int(j)]
        o = outcome(fn, da if j % 2 == 0 else fresh(da))  # on the same object / elsewhere in the process
        R.count("present_failure_calls")
        R.count(f"present_failure:{label}:{'raises ' + o[1] if o[0] == 'raise' else 'returned'}")
        for where, obj in (("the same object", da), ("a fresh object", fresh(da))):
            got = outcome(op, obj)
            R.count("present_failure_probes")
            if not same(got, ref):
                R.violation(f"{pid}:after-failure", f"{name} on {where} after '{label}' ({'which raised ' + o[1] if o[0] == 'raise' else 'which returned'}"
                            f"{', as the first call of the lazily compiled kernels' if first_call else ''}): {describe(got)}; before: {describe(ref)}",
                            dict(case or {}, op=name, failure=label, first_call=first_call))
                return False
    return True


PIDS = ("C02", "C03", "C04", "C05", "C06", "C07", "C08", "C09", "C10", "C12", "C15", "C16", "C17", "C18", "C19", "C20")
PIXELWISE = {"C12", "C02", "C03", "C04", "C05", "C06", "C07", "C08", "C09", "C10", "C15", "C17", "C18", "C19", "C20"}


def shard(spec, R, pid):
    import hdc.algo  # noqa: F401

    from . import harness as H

    rng = np.random.default_rng([spec["seed"], 91, int(pid[1:]), spec.get("sub", 0)])
    for it in range(spec["cases"]):
        if R.out_of_time():
            R.count("stopped_on_budget")
            break
        nt = int(rng.choice([9, 12, 24]))
        order = [("time", "y", "x"), ("y", "x", "time"), ("y", "time", "x")][H.pick(it, 1, 3)]
        binary = pid == "C18"
        dtype = "uint8" if binary else ["int16", "int16", "float32" if pid in ("C07", "C08", "C09", "C10", "C12", "C15", "C16", "C17", "C19") else "int16"][H.pick(it, 2, 3)]
        if pid in ("C02", "C03", "C04", "C05", "C06") and H.pick(it, 2, 3) == 2:
            dtype = "float64"
        ops = _ops(pid, rng, nt)
        name = list(ops)[H.pick(it, 4, len(ops))]
        da = _cube(rng, nt, dtype=dtype, order=order, with_attr=pid in ("C16", "C17", "C20") or bool(H.pick(it, 3, 3)), binary=binary, ny=3, nx=4, hostile_pixels=bool(H.pick(it, 8, 2)))
        case = {"cube": np.array(da.values, copy=True), "dims": list(order), "dtype": dtype, "attrs": {k: float(v) for k, v in da.attrs.items()}}
        R.evaluation()
        R.case(True, "present", pid, name, dtype, order, it)
        mode = H.pick(it, 7, 4)
        full = f"{name} ({dtype}, dims {order})"
        if mode == 3:
            lazy_probe(R, pid, full, da, ops, name, rng, pid in PIXELWISE, case)
            late_mutation_probe(R, pid, full, da, rng, nt, name, case)
        elif mode == 0:
            container_probe(R, pid, full, da, ops[name], rng, pid in PIXELWISE, case)
        elif mode == 1:
            alts = spellings(pid, rng, nt).get(name)
            if alts:
                spelling_probe(R, pid, full, da, ops[name], alts, case)
            else:
                container_probe(R, pid, full, da, ops[name], rng, pid in PIXELWISE, case)
        else:
            failure_probe(R, pid, name, da, ops, rng, nt, case, first_call=it in (2, 5), name=full)
