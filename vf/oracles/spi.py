"""Independent SPI evaluation (SciPy; mpmath for the cross-check) from the definition in C07.

alpha, beta : ML gamma fit to the positive values inside the calibration window
p0          : share of zeros among the pixel's valid (non-nodata, >= 0) observations
SPI(x)      : Phi^-1( p0 + (1 - p0) * G(x; alpha, beta) )
"""

from __future__ import annotations

import math

import numpy as np
from scipy import optimize, special, stats


def fit_s(xcal):
    xcal = np.asarray(xcal, dtype=np.float64)
    pos = xcal[xcal > 0]
    if pos.size == 0:
        return None
    m = float(np.mean(pos))
    s = math.log(m) - float(np.mean(np.log(pos)))
    return s, m


def alpha_from_s(s):
    if not (s > 0):
        return None
    f = lambda a: math.log(a) - float(special.digamma(a)) - s
    lo, hi = 1e-8, 1e12
    if f(lo) * f(hi) > 0:
        return None
    return float(optimize.brentq(f, lo, hi, xtol=1e-300, rtol=4 * np.finfo(float).eps, maxiter=500))


def fit(xcal):
    r = fit_s(xcal)
    if r is None:
        return None
    s, m = r
    a = alpha_from_s(s)
    if a is None:
        return None
    return a, m / a, s


def p_zero(x, nodata):
    x = np.asarray(x, dtype=np.float64)
    valid = (x != nodata) & (x >= 0)
    nv = int(valid.sum())
    if nv == 0:
        return None
    return float(((x == 0) & valid).sum()) / nv


def spi_values(x, nodata, alpha, beta, p0):
    """Unrounded SPI for every valid (non-nodata, >= 0) cell; NaN elsewhere."""
    x = np.asarray(x, dtype=np.float64)
    out = np.full(x.shape, np.nan)
    ok = (x != nodata) & (x >= 0)
    cdf = stats.gamma.cdf(x[ok], alpha, scale=beta)
    out[ok] = stats.norm.ppf(p0 + (1 - p0) * cdf)
    return out


def tie_band(spi):
    """Resolution of the oracle itself in units of 1000*SPI: 8 ulp of the probability mapped through the quantile."""
    phi = np.exp(-0.5 * np.asarray(spi, dtype=float) ** 2) / math.sqrt(2 * math.pi)
    with np.errstate(divide="ignore", over="ignore"):
        return np.maximum(1e-6, 1000 * 8 * 2.0 ** -53 / np.maximum(phi, 1e-300))


# ----------------------------------------------------------------------------- mpmath cross-check
def spi_mp(x, nodata, cal, dps=40):
    """Same definition evaluated with mpmath (shares no special-function kernels with SciPy/the repository)."""
    import mpmath as mp

    mp.mp.dps = dps
    x = [float(v) for v in x]
    xc = [v for v in cal if v > 0]
    if not xc:
        return None
    m = mp.fsum(xc) / len(xc)
    s = mp.log(m) - mp.fsum([mp.log(v) for v in xc]) / len(xc)
    if s <= 0:
        return None
    a0 = (3 - s + mp.sqrt((s - 3) ** 2 + 24 * s)) / (12 * s)
    alpha = mp.findroot(lambda a: mp.log(a) - mp.digamma(a) - s, a0)
    beta = m / alpha
    valid = [v for v in x if v != nodata and v >= 0]
    p0 = mp.mpf(sum(1 for v in valid if v == 0)) / len(valid)
    out = []
    for v in x:
        if v == nodata or v < 0:
            out.append(None)
            continue
        g = mp.gammainc(alpha, 0, mp.mpf(v) / beta, regularized=True)
        p = p0 + (1 - p0) * g
        if p <= 0:
            out.append(-mp.inf)
        elif p >= 1:
            out.append(mp.inf)
        else:
            out.append(mp.sqrt(2) * mp.erfinv(2 * p - 1))
    return alpha, beta, p0, out
