"""Reference models for the Whittaker smoothers, written from the definitions (share no code with hdc).

minimise  sum w_i (y_i - z_i)^2 + lam * sum (z_i - 2 z_{i+1} + z_{i+2})^2   <=>   (W + lam D'D) z = W y
"""

from __future__ import annotations

import math
from fractions import Fraction

import numpy as np

LN10 = math.log(10.0)


# ----------------------------------------------------------------------------- exact arithmetic
def to_frac(a):
    return [Fraction(float(x)) if not isinstance(x, Fraction) else x for x in a]


def DtD_apply(z):
    """(D'D z) from the definition of second differences; works for Fraction or float lists."""
    n = len(z)
    u = [z[k] - 2 * z[k + 1] + z[k + 2] for k in range(n - 2)]
    out = [0] * n
    for k in range(n - 2):
        out[k] += u[k]
        out[k + 1] += -2 * u[k]
        out[k + 2] += u[k]
    return out


def residual_exact(z, y, w, lam):
    """r = (W + lam D'D) z - W y, exact when fed Fractions."""
    q = DtD_apply(z)
    return [w[i] * z[i] + lam * q[i] - w[i] * y[i] for i in range(len(z))]


def band_matrix(n, w, lam, zero=0):
    """Rows of A = W + lam D'D as dict {j: a_ij} restricted to |i-j|<=2, assembled from D."""
    rows = [dict() for _ in range(n)]
    for k in range(n - 2):
        idx = (k, k + 1, k + 2)
        cf = (1, -2, 1)
        for a in range(3):
            for b in range(3):
                i, j = idx[a], idx[b]
                rows[i][j] = rows[i].get(j, zero) + lam * (cf[a] * cf[b])
    for i in range(n):
        rows[i][i] = rows[i].get(i, zero) + w[i]
    return rows


def solve_exact(y, w, lam):
    """Banded Gaussian elimination in exact rationals (A is SPD: no pivoting needed)."""
    y = to_frac(y)
    w = to_frac(w)
    lam = Fraction(float(lam)) if not isinstance(lam, Fraction) else lam
    n = len(y)
    rows = band_matrix(n, w, lam, Fraction(0))
    b = [w[i] * y[i] for i in range(n)]
    for i in range(n):
        piv = rows[i][i]
        if piv == 0:
            raise ZeroDivisionError("singular system (fewer than two positive weights?)")
        for r in (i + 1, i + 2):
            if r < n and i in rows[r]:
                f = rows[r][i] / piv
                if f != 0:
                    for j, a in rows[i].items():
                        if j >= i:
                            rows[r][j] = rows[r].get(j, Fraction(0)) - f * a
                    b[r] -= f * b[i]
                del rows[r][i]
    z = [Fraction(0)] * n
    for i in range(n - 1, -1, -1):
        s = b[i]
        for j, a in rows[i].items():
            if j > i:
                s -= a * z[j]
        z[i] = s / rows[i][i]
    return z


# ----------------------------------------------------------------------------- float64, independent of ws2d
def _bands_float(n, w, lam):
    """Upper banded storage (3, n) for scipy.linalg.solveh_banded, from the known stencil of D'D."""
    ab = np.zeros((3, n))
    d0 = np.full(n, 6.0)
    d0[[0, -1]] = 1.0
    if n > 2:
        d0[[1, -2]] = 5.0
    if n == 3:
        d0[1] = 4.0
    d1 = np.full(n - 1, -4.0)
    d1[[0, -1]] = -2.0
    d2 = np.ones(n - 2)
    ab[2, :] = np.asarray(w, dtype=float) + lam * d0
    ab[1, 1:] = lam * d1
    ab[0, 2:] = lam * d2
    return ab


def _matvec_ld(z, w, lam):
    z = np.asarray(z, dtype=np.longdouble)
    n = z.size
    u = z[:-2] - 2 * z[1:-1] + z[2:]
    q = np.zeros(n, dtype=np.longdouble)
    q[:-2] += u
    q[1:-1] += -2 * u
    q[2:] += u
    return np.asarray(w, dtype=np.longdouble) * z + np.longdouble(lam) * q


def solve_float(y, lam, w, refine=2):
    """LAPACK banded Cholesky + iterative refinement with extended-precision residuals."""
    from scipy.linalg import solveh_banded

    y = np.asarray(y, dtype=float)
    w = np.asarray(w, dtype=float)
    n = y.size
    yy = np.where(w == 0, 0.0, y)  # a zero-weight cell never enters the right-hand side
    ab = _bands_float(n, w, float(lam))
    rhs = w * yy
    z = solveh_banded(ab, rhs)
    for _ in range(refine):
        r = np.asarray(w, dtype=np.longdouble) * np.asarray(yy, dtype=np.longdouble) - _matvec_ld(z, w, lam)
        dz = solveh_banded(ab, np.asarray(r, dtype=float))
        z = np.asarray(np.asarray(z, dtype=np.longdouble) + dz, dtype=float)
    return z


def cond2(n, w, lam):
    rows = band_matrix(n, [float(x) for x in w], float(lam), 0.0)
    A = np.zeros((n, n))
    for i, r in enumerate(rows):
        for j, a in r.items():
            A[i, j] = a
    ev = np.linalg.eigvalsh(A)
    return float(ev[-1] / ev[0]) if ev[0] > 0 else float("inf")


# ----------------------------------------------------------------------------- wrapper logic (replica / dense)
def valid_full(y, nodata):
    y = np.asarray(y, dtype=float)
    return 1.0 - ((y == nodata) | np.isnan(y) | np.isinf(y)).astype(float)


def valid_eq(y, nodata):
    y = np.asarray(y, dtype=float)
    return 1.0 - (y == nodata).astype(float)


def round_i16(z):
    """Half-to-even rounding and the store into int16 (callers exclude out-of-range curves)."""
    r = np.round(np.asarray(z, dtype=float))
    with np.errstate(invalid="ignore"):
        return r.astype(np.int16)


def asym(y, lam, w, p, solver, z0=None, passes=10):
    """Asymmetric IRLS exactly as specified: start from z0 (zero curve), weights p where y > z else 1-p,
    stop when sum|znew - z| == 0 or after 10 passes, final solve with the last weights."""
    y = np.asarray(y, dtype=float)
    m = y.size
    z = np.zeros(m) if z0 is None else np.array(z0, dtype=float)
    ww = None
    n_pass = 0
    min_margin = np.inf
    for _ in range(passes):
        n_pass += 1
        env = y > z
        wa = np.where(env, p, 1 - p)
        ww = w * wa
        mar = np.abs(y - z)[w > 0]
        if mar.size:
            min_margin = min(min_margin, float(mar.min()))
        znew = solver(y, lam, ww)
        if np.sum(np.abs(znew - z)) == 0.0:
            break
        z = np.array(znew, dtype=float)
    zf = solver(y, lam, ww)
    return {"z": zf, "ww": ww, "passes": n_pass, "z_iter": z, "min_margin": min_margin}


def vcurve(y, w, llas, solver, p=None):
    """V-curve over the grid ``llas``; with p the asymmetric iterate is carried from one lambda to the next."""
    y = np.asarray(y, dtype=float)
    llas = np.asarray(llas, dtype=float)
    nl = llas.size
    fits = np.zeros(nl)
    pens = np.zeros(nl)
    z = np.zeros(y.size)
    min_margin = np.inf
    raw_fit = np.zeros(nl)
    raw_pen = np.zeros(nl)
    for i in range(nl):
        lam = 10.0 ** llas[i]
        if p is None:
            z = solver(y, lam, w)
        else:
            r = asym(y, lam, w, p, solver, z0=z)
            z = r["z_iter"]
            min_margin = min(min_margin, r["min_margin"])
        f = float(np.sum((w * (y - z)) ** 2))
        q = float(np.sum(np.diff(z, 2) ** 2))
        raw_fit[i] = f
        raw_pen[i] = q
        with np.errstate(divide="ignore"):
            fits[i] = math.log(f) if f > 0 else -np.inf
            pens[i] = math.log(q) if q > 0 else -np.inf
    step = llas[1] - llas[0]
    with np.errstate(invalid="ignore"):
        v = np.sqrt(np.diff(fits) ** 2 + np.diff(pens) ** 2) / (LN10 * step)
    lamids = (llas[:-1] + llas[1:]) / 2
    k = 0
    vmin = v[0]
    for i in range(1, nl - 1):
        if v[i] < vmin:
            vmin = v[i]
            k = i
    return {"fits": fits, "pens": pens, "v": v, "lamids": lamids, "k": k, "lopt": 10.0 ** lamids[k],
            "raw_fit": raw_fit, "raw_pen": raw_pen, "min_margin": min_margin}


D_EIGS_CACHE = {}


def d_eigs(m):
    if m not in D_EIGS_CACHE:
        e = -2 + 2 * np.cos(np.arange(m) * np.pi / m)
        e[0] = 1e-15
        D_EIGS_CACHE[m] = e
    return D_EIGS_CACHE[m]


def gcv_score(y, z, w, s):
    """sum w (y-z)^2 / (N (1 - trH/N)^2), N = sum w, trH = sum w_i/(w_i + s e_i^2) (the definition anchored in C05)."""
    m = y.size
    e = d_eigs(m)
    N = float(np.sum(w))
    trH = float(np.sum(w / (w + s * e**2)))
    yy = np.where(w == 0, 0.0, y)
    zz = np.where(w == 0, 0.0, z)
    wsse = float(np.sum(w * (yy - zz) ** 2))
    with np.errstate(all="ignore"):
        return float(np.float64(wsse) / (np.float64(N) * (1 - np.float64(trH) / np.float64(N)) ** 2)), trH, wsse


def gcv_select(y, w, llas, solver):
    """Non-robust GCV: first strict minimum over 10**llas."""
    y = np.asarray(y, dtype=float)
    scores = []
    best = (1e15, 0.0, None)
    for ll in llas:
        s = 10.0 ** float(ll)
        z = solver(y, s, w)
        g, trH, wsse = gcv_score(y, z, w, s)
        scores.append(g)
        if g < best[0]:
            best = (g, s, z)
    return {"scores": np.array(scores), "lopt": best[1], "z": best[2], "best": best[0]}
