"""CLI: ``python -m vf.main <ID> [--tier quick|thorough] [--replay PATH]`` (and the internal ``--shard``)."""

from __future__ import annotations

import argparse
import importlib
import json
import os
import sys
import time
import traceback
from pathlib import Path

from . import harness as H


def load(pid: str):
    return importlib.import_module(f"vf.checks.{pid.lower()}")


def shard_main(pid, spec_path, out_path):
    H.setup_paths()
    spec = json.loads(Path(spec_path).read_text())
    mod = load(pid)
    R = H.Recorder()
    R.budget_s = spec.get("budget_s")
    if getattr(mod, "NEEDS_REPO", True):
        H.assert_repo_import()
    from . import smooth as S
    S.MONITOR.update(R=R, pid=pid)
    H.PICK_OFFSET = 7919 * int(spec.get("sub", 0) or 0)
    try:
        if spec.get("kind") == "reuse":
            from . import reuse
            reuse.shard(spec, R, pid)
        else:
            mod.run_shard(spec, R)
    except Exception as exc:
        # an exception of the harness/oracle itself is never a violation; one raised *inside the tree under test* on an
        # input the workload treats as in-contract (it did not expect or catch it) is an observed failure of that code
        tb = traceback.extract_tb(exc.__traceback__)
        inner = tb[-1] if tb else None
        if inner is not None and os.path.realpath(inner.filename).startswith(str(H.REPO) + os.sep):
            R.violation(f"{pid}:unexpected-exception", f"{type(exc).__name__}: {str(exc)[:160]} raised in {os.path.relpath(inner.filename, H.REPO)}:{inner.lineno} ({inner.name}) "
                        f"under {' <- '.join(f'{os.path.basename(f.filename)}:{f.lineno}' for f in reversed(tb[-4:-1]))}", {"shard_spec": spec})
        else:
            R.inconclusive_because(f"shard {spec.get('kind')} raised: {traceback.format_exc()[-1500:]}")
    Path(out_path).write_text(json.dumps(R.dump()))
    return 0


def replay_main(pid, path):
    H.setup_paths()
    mod = load(pid)
    H.assert_repo_import()
    doc = json.loads(Path(path).read_text())
    case = doc["case"]
    R = H.Recorder()
    from . import smooth as S
    S.MONITOR.update(R=R, pid=pid)
    if isinstance(case, dict) and "shard_spec" in case:
        # witness of a shard that died on a fatal signal: the whole shard is run again in its own process
        dumps, problems = H.run_shards(pid, [case["shard_spec"]], getattr(mod, "HARD_TIMEOUT_S", {}).get("thorough", 3600))
        agg = H.merge(dumps)
        R.evaluations = agg["evaluations"]
        R.violations = agg["violations"]
        for pr in problems:
            if not any(v["key"].endswith(":fatal-signal") for v in agg["violations"]):
                R.inconclusive_because(pr)
    else:
        mod.replay(H.unjson(case), R)
    known = H.load_known()
    bad = False
    for v in R.violations:
        f = known.get((pid, v["key"]))
        if f is not None and f.get("status") == "open":
            print(f"KNOWN-FINDING: property={pid} {v['key']}: {f['what']}")
        else:
            bad = True
            print(f"VIOLATION property={pid} replay={path}")
            print(f"  key={v['key']} what={v['what'][:600]}")
    if R.inconclusive:
        for w in R.inconclusive:
            print(f"INCONCLUSIVE property={pid} {w[:600]}")
        return 1 if bad else 2
    if not bad:
        print(f"{pid} replay {path}: held on the current tree ({R.evaluations} evaluations)")
    return 1 if bad else 0


def main(argv=None):
    sys.set_int_max_str_digits(0)
    ap = argparse.ArgumentParser()
    ap.add_argument("pid")
    ap.add_argument("--tier", default=os.environ.get("VERIF_TIER", "quick"), choices=["quick", "thorough"])
    ap.add_argument("--replay")
    ap.add_argument("--shard")
    ap.add_argument("--out")
    a = ap.parse_args(argv)
    pid = a.pid.upper()
    if a.shard:
        return shard_main(pid, a.shard, a.out)
    if a.replay:
        return replay_main(pid, a.replay)

    t0 = time.time()
    seed = int(os.environ.get("VERIF_SEED", "0"))
    H.setup_paths()
    mod = load(pid)
    specs = mod.plan(a.tier, seed)
    from . import reuse
    if pid in reuse.PIDS:  # life-cycle workload shared by every property that is reached through a cached accessor
        for i in range(2 if a.tier == "quick" else 6):
            specs.append({"kind": "reuse", "sub": i, "cases": 40 if a.tier == "quick" else 1500, "budget_s": 100 if a.tier == "quick" else 600})
    from . import present
    if pid in present.PIDS:  # presentation workload: containers, parameter spellings, failures that must leave nothing behind
        for i in range(2 if a.tier == "quick" else 6):
            specs.append({"kind": "reuse", "mode": "present", "sub": i, "cases": 36 if a.tier == "quick" else 1200, "budget_s": 100 if a.tier == "quick" else 600})
    for i, s in enumerate(specs):
        s.setdefault("shard", i)
        s.setdefault("seed", seed)
        s.setdefault("tier", a.tier)
    hard = getattr(mod, "HARD_TIMEOUT_S", {"quick": 900, "thorough": 5400})[a.tier]
    dumps, problems = H.run_shards(pid, specs, hard)
    agg = H.merge(dumps)
    return H.finish(pid, a.tier, seed, mod, agg, problems, t0)


if __name__ == "__main__":
    sys.exit(main())
