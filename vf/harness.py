"""Shared run machinery: recorder, sharding over subprocesses, verdicts, evidence, replays.

Three-valued verdicts
---------------------
held          exit 0
violated      exit 1, one line ``VIOLATION property=<id> replay=<path>`` per distinct mechanism key
inconclusive  exit 2, ``INCONCLUSIVE property=<id> <reason>`` (watchdog, dead shard, a monitor that never ran)

Known findings (``known_findings.json``) are keyed by *mechanism*; a violation whose key is listed as
``open`` prints ``KNOWN-FINDING: property=<id> <what>`` and does not fail the run.  ``fixed`` entries
suppress nothing.  The file is never written at run time.
"""

from __future__ import annotations

import hashlib
import json
import os
import subprocess
import sys
import tempfile
import time
import shutil
from pathlib import Path

ROOT = Path(__file__).resolve().parent.parent
DEPS = ROOT / ".deps"
REPO = Path(os.environ.get("VERIF_REPO", "/repo")).resolve()
NPROC = int(os.environ.get("VERIF_NPROC", "16"))
OUT = Path(os.environ.get("VERIF_OUT", str(ROOT))).resolve()  # evidence/ and replays/ live here (mutant runs redirect it)
LEVEL = "exploration"


def setup_paths():
    """Make hdc import from the tree under test and the helper libs from .deps."""
    for p in (str(DEPS), str(ROOT)):
        if p not in sys.path:
            sys.path.append(p)
    if str(REPO) in sys.path:
        sys.path.remove(str(REPO))
    sys.path.insert(0, str(REPO))


def assert_repo_import():
    import hdc.algo  # noqa

    f = Path(hdc.algo.__file__).resolve()
    if not str(f).startswith(str(REPO) + os.sep):
        raise RuntimeError(f"hdc.algo imported from {f}, expected under {REPO}")


PICK_OFFSET = 0  # set per shard (vf.main) so that shards of one check do not repeat each other's schedule


def pick(it: int, salt: int, k: int) -> int:
    """Index in 0..k-1 for iteration ``it``: within every block of k consecutive iterations each value occurs once (so
    hostile exact values are met early even in short runs); block b is rotated by m*b (m coprime to k, derived from the
    salt) plus a hash of (salt, b // k), so over k*k iterations a parameter meets every value of a plain ``it % k``
    neighbour, and two parameters of one workload are never functions of one another (``it % 3`` next to ``it % 6`` made
    every mode meet exactly one dimension order)."""
    import math

    block, off = divmod(int(it) + PICK_OFFSET, k)
    m = salt % k
    while math.gcd(m, k) != 1:
        m += 1
    sup = block // k
    z = (sup * 0x9E3779B97F4A7C15 + (salt + 1) * 0xBF58476D1CE4E5B9) & 0xFFFFFFFFFFFFFFFF
    z = ((z ^ (z >> 30)) * 0xBF58476D1CE4E5B9) & 0xFFFFFFFFFFFFFFFF
    z = ((z ^ (z >> 27)) * 0x94D049BB133111EB) & 0xFFFFFFFFFFFFFFFF
    z ^= z >> 31
    return (off + m * block + z) % k


def h64(*parts) -> int:
    """Stable 64-bit hash of a case description (numpy arrays, scalars, strings, nested tuples)."""
    import numpy as np

    m = hashlib.sha1()

    def feed(o):
        if isinstance(o, np.ndarray):
            m.update(str(o.dtype).encode())
            m.update(str(o.shape).encode())
            m.update(np.ascontiguousarray(o).tobytes())
        elif isinstance(o, (tuple, list)):
            m.update(b"(")
            for x in o:
                feed(x)
            m.update(b")")
        elif isinstance(o, dict):
            for k in sorted(o):
                feed(k)
                feed(o[k])
        else:
            m.update(repr(o).encode())
        m.update(b"|")

    for p in parts:
        feed(p)
    return int.from_bytes(m.digest()[:8], "big")


def jsonable(o):
    """Convert numpy / Fraction / datetime objects into something json.dump accepts (lossless for arrays)."""
    import numpy as np
    from fractions import Fraction
    import datetime as _dt

    if isinstance(o, np.ndarray):
        if o.dtype.kind == "f":
            lst = [jsonable(x) for x in o.tolist()]
        elif o.dtype.kind in "mM":
            lst = o.astype(str).tolist()
        else:
            lst = o.tolist()
        return {"__nd__": str(o.dtype), "shape": list(o.shape), "data": lst}
    if isinstance(o, (np.floating, float)):
        f = float(o)
        if f != f:
            return "nan"
        if f in (float("inf"), float("-inf")):
            return "inf" if f > 0 else "-inf"
        return f
    if isinstance(o, (np.integer,)):
        return int(o)
    if isinstance(o, (np.bool_,)):
        return bool(o)
    if isinstance(o, Fraction):
        return {"__frac__": [str(o.numerator), str(o.denominator)]}
    if isinstance(o, (_dt.datetime, _dt.date)):
        return o.isoformat()
    if isinstance(o, dict):
        return {str(k): jsonable(v) for k, v in o.items()}
    if isinstance(o, (list, tuple)):
        return [jsonable(x) for x in o]
    if isinstance(o, (str, int, bool)) or o is None:
        return o
    return repr(o)


def _unfloat(x):
    if x == "nan":
        return float("nan")
    if x == "inf":
        return float("inf")
    if x == "-inf":
        return float("-inf")
    if isinstance(x, list):
        return [_unfloat(v) for v in x]
    return x


def unjson(o):
    """Inverse of jsonable for arrays / fractions (used by --replay)."""
    import numpy as np
    from fractions import Fraction

    if isinstance(o, dict):
        if "__nd__" in o:
            dt = np.dtype(o["__nd__"])
            data = _unfloat(o["data"]) if dt.kind == "f" else o["data"]
            return np.array(data, dtype=dt).reshape(o["shape"])
        if "__frac__" in o:
            return Fraction(int(o["__frac__"][0]), int(o["__frac__"][1]))
        return {k: unjson(v) for k, v in o.items()}
    if isinstance(o, list):
        return [unjson(v) for v in o]
    if o in ("nan", "inf", "-inf"):
        return _unfloat(o)
    return o


class Recorder:
    """What one shard observed.  Everything is plain data so it can be shipped as JSON."""

    MAX_SAMPLES = 4
    MAX_VIOL_PER_KEY = 3

    def __init__(self):
        self.evaluations = 0
        self.counters: dict[str, int] = {}
        self.hashes: set[int] = set()
        self.disjoint_nontrivial = 0  # cases of an enumerated partition (distinct by construction)
        self.samples: list = []
        self.violations: list[dict] = []
        self.viol_counts: dict[str, int] = {}
        self.notes: dict = {}
        self.inconclusive: list[str] = []
        self.t0 = time.time()
        self.budget_s = None

    # ---- coverage
    def count(self, key: str, n: int = 1):
        self.counters[key] = self.counters.get(key, 0) + n

    def evaluation(self, n: int = 1):
        self.evaluations += n

    def case(self, nontrivial: bool, *parts):
        """Register one case; hashed for the distinct_nontrivial count when it is non-trivial."""
        if nontrivial:
            self.hashes.add(h64(*parts))

    def enumerated(self, n: int):
        self.disjoint_nontrivial += n

    def sample(self, obj):
        if len(self.samples) < self.MAX_SAMPLES:
            self.samples.append(jsonable(obj))

    def want_sample(self):
        return len(self.samples) < self.MAX_SAMPLES

    def note(self, key, value):
        self.notes[key] = jsonable(value)

    def note_max(self, key, value):
        v = float(value)
        if key not in self.notes or v > self.notes[key]:
            self.notes[key] = v

    # ---- verdicts
    def violation(self, key: str, what: str, case: dict):
        """key = mechanism key (``Cnn:short-name``); case = JSON-able witness that ``replay`` understands."""
        self.viol_counts[key] = self.viol_counts.get(key, 0) + 1
        if self.viol_counts[key] <= self.MAX_VIOL_PER_KEY:
            self.violations.append({"key": key, "what": what, "case": jsonable(case)})

    def inconclusive_because(self, why: str):
        self.inconclusive.append(why)

    # ---- time budget (soft: the shard stops generating, it is not a verdict)
    def out_of_time(self):
        return self.budget_s is not None and (time.time() - self.t0) > self.budget_s

    def dump(self):
        return {
            "evaluations": self.evaluations,
            "counters": self.counters,
            "hashes": sorted(self.hashes),
            "disjoint_nontrivial": self.disjoint_nontrivial,
            "samples": self.samples,
            "violations": self.violations,
            "viol_counts": self.viol_counts,
            "notes": self.notes,
            "inconclusive": self.inconclusive,
            "wall_s": time.time() - self.t0,
        }


def merge(dumps: list[dict]) -> dict:
    agg = {
        "evaluations": 0,
        "counters": {},
        "hashes": set(),
        "disjoint_nontrivial": 0,
        "samples": [],
        "violations": [],
        "viol_counts": {},
        "notes": {},
        "inconclusive": [],
        "shard_wall_s": [],
    }
    for d in dumps:
        agg["evaluations"] += d["evaluations"]
        for k, v in d["counters"].items():
            agg["counters"][k] = agg["counters"].get(k, 0) + v
        agg["hashes"].update(d["hashes"])
        agg["disjoint_nontrivial"] += d["disjoint_nontrivial"]
        agg["samples"].extend(d["samples"])
        agg["violations"].extend(d["violations"])
        for k, v in d["viol_counts"].items():
            agg["viol_counts"][k] = agg["viol_counts"].get(k, 0) + v
        for k, v in d["notes"].items():
            if k in agg["notes"] and isinstance(v, (int, float)) and isinstance(agg["notes"][k], (int, float)):
                agg["notes"][k] = max(agg["notes"][k], v)
            elif k in agg["notes"] and isinstance(v, list) and isinstance(agg["notes"][k], list):
                agg["notes"][k] = agg["notes"][k] + [x for x in v if x not in agg["notes"][k]]
            elif k in agg["notes"] and isinstance(v, dict) and isinstance(agg["notes"][k], dict):
                agg["notes"][k].update(v)
            else:
                agg["notes"][k] = v
        agg["inconclusive"].extend(d["inconclusive"])
        agg["shard_wall_s"].append(round(d.get("wall_s", 0.0), 1))
    return agg


def load_known():
    p = ROOT / "known_findings.json"
    if not p.exists():
        return {}
    data = json.loads(p.read_text())
    return {(f["property"], f["key"]): f for f in data.get("findings", [])}


def git_state():
    def run(*a):
        try:
            return subprocess.run(["git", "-C", str(REPO), *a], capture_output=True, text=True, timeout=30).stdout
        except Exception:
            return ""

    head = run("rev-parse", "HEAD").strip()
    diff = run("diff", "HEAD", "--", "hdc")
    return {"head": head, "diff_sha1": hashlib.sha1(diff.encode()).hexdigest()[:12] if diff else "clean"}


FATAL_SIGNALS = {-11: "SIGSEGV", -6: "SIGABRT", -7: "SIGBUS", -4: "SIGILL"}


def _py_frames(tail: str) -> str:
    """The innermost Python frames of a faulthandler dump (where in the workload the fault happened)."""
    fr = [ln.strip() for ln in tail.splitlines() if ln.strip().startswith("File ")]
    return " <- ".join(fr[:4])[:400] if fr else "no Python traceback captured"


def run_shards(pid: str, specs: list[dict], hard_timeout_s: float, env_extra=None):
    """Run every shard spec in its own interpreter (fresh JIT compile of the current tree), <= NPROC at a time."""
    work = Path(tempfile.mkdtemp(prefix=f"verif-{pid}-"))
    procs = []
    pending = list(enumerate(specs))
    running = []
    results: list[dict | None] = [None] * len(specs)
    problems = []
    try:
        while pending or running:
            while pending and len(running) < NPROC:
                i, spec = pending.pop(0)
                sp = work / f"spec{i}.json"
                op = work / f"out{i}.json"
                ep = work / f"err{i}.txt"
                sp.write_text(json.dumps(spec))
                env = dict(os.environ)
                env.setdefault("PYTHONHASHSEED", "0")
                env["PYTHONDONTWRITEBYTECODE"] = "1"
                env["PYTHONFAULTHANDLER"] = "1"
                for k, v in (spec.get("env") or {}).items():
                    env[k] = str(v)
                if env_extra:
                    env.update(env_extra)
                errf = open(ep, "w")
                p = subprocess.Popen(
                    [sys.executable, "-m", "vf.main", pid, "--shard", str(sp), "--out", str(op)],
                    cwd=str(ROOT),
                    env=env,
                    stdout=errf,
                    stderr=subprocess.STDOUT,
                )
                running.append((i, p, time.time(), op, ep, errf, spec))
            time.sleep(0.05)
            still = []
            for item in running:
                i, p, t0, op, ep, errf, spec = item
                rc = p.poll()
                tmo = spec.get("timeout_s", hard_timeout_s)
                if rc is None:
                    if time.time() - t0 > tmo:
                        p.kill()
                        p.wait()
                        errf.close()
                        problems.append(f"shard {i} ({spec.get('kind')}) hit the {tmo:.0f}s watchdog")
                    else:
                        still.append(item)
                    continue
                errf.close()
                if rc != 0 or not op.exists():
                    tail = ep.read_text()[-1500:] if ep.exists() else ""
                    problems.append(f"shard {i} ({spec.get('kind')}) died rc={rc}: {tail}")
                    if rc in FATAL_SIGNALS:
                        # the harness is pure Python: a memory fault can only come from the compiled code under test
                        # (or glibc aborting on a heap it found corrupted) - an observed memory-safety violation
                        Rf = Recorder()
                        first = next((ln for ln in ep.read_text().splitlines() if ln.strip()), "") if ep.exists() else ""
                        Rf.violation(f"{pid}:fatal-signal", f"shard {spec.get('kind')} was killed by {FATAL_SIGNALS[rc]} while running the code under test ({first[:120]}); faulthandler: {_py_frames(ep.read_text() if ep.exists() else '')}",
                                     {"shard_spec": spec, "signal": FATAL_SIGNALS[rc]})
                        results[i] = Rf.dump()
                else:
                    results[i] = json.loads(op.read_text())
            running = still
    finally:
        for item in running:
            try:
                item[1].kill()
            except Exception:
                pass
        shutil.rmtree(work, ignore_errors=True)
    return [r for r in results if r is not None], problems


def write_replay(pid: str, v: dict) -> Path:
    d = OUT / "replays" / pid
    d.mkdir(parents=True, exist_ok=True)
    hh = hashlib.sha1(json.dumps(v["case"], sort_keys=True).encode()).hexdigest()[:12]
    name = v["key"].replace(":", "_").replace("/", "_")
    p = d / f"{name}-{hh}.json"
    p.write_text(json.dumps({"property": pid, "key": v["key"], "what": v["what"], "case": v["case"]}, indent=1))
    return p


def validate_evidence(ev: dict):
    try:
        import jsonschema

        schema_p = Path("/root/.vp/EVIDENCE.schema.json")
        if not schema_p.exists():
            schema_p = ROOT / "vf" / "EVIDENCE.schema.json"
        schema = json.loads(schema_p.read_text())
        jsonschema.validate(ev, schema)
        return None
    except ImportError:
        return "jsonschema unavailable"
    except Exception as e:  # pragma: no cover
        return f"evidence does not validate: {str(e)[:300]}"


def finish(pid: str, tier: str, seed: int, mod, agg: dict, problems: list[str], t0: float) -> int:
    """Classify violations, write evidence, print verdict lines, return the exit code."""
    known = load_known()
    inconclusive = list(problems) + list(agg["inconclusive"])

    # per-check sanity of what the monitors saw (zero evaluations of a deciding monitor => inconclusive)
    if hasattr(mod, "finalize"):
        try:
            extra = mod.finalize(agg, tier) or []
            inconclusive.extend(extra)
        except Exception as e:  # harness error, never a violation
            inconclusive.append(f"finalize failed: {e!r}")

    cnt = agg["counters"]
    if cnt.get("reuse_probes", 0) and cnt.get("reuse_outcome_ok", 0) * 2 < cnt.get("reuse_probes", 0):
        inconclusive.append(f"life-cycle workload: only {cnt.get('reuse_outcome_ok', 0)} of {cnt.get('reuse_probes', 0)} probes reached a result (the others raised on the fresh object as well)")

    by_key: dict[str, list[dict]] = {}
    for v in agg["violations"]:
        by_key.setdefault(v["key"], []).append(v)

    lines = []
    new_violation = False
    known_seen = []
    for key, vs in sorted(by_key.items()):
        n = agg["viol_counts"].get(key, len(vs))
        f = known.get((pid, key))
        if f is not None and f.get("status") == "open":
            known_seen.append({"key": key, "count": n})
            lines.append(f"KNOWN-FINDING: property={pid} {key} x{n}: {f['what']}")
        else:
            new_violation = True
            path = write_replay(pid, vs[0])
            shown = path.relative_to(ROOT) if str(path).startswith(str(ROOT) + os.sep) else path
            lines.append(f"VIOLATION property={pid} replay={shown}")
            lines.append(f"  key={key} count={n} what={vs[0]['what'][:400]}")

    distinct = len(agg["hashes"]) + agg["disjoint_nontrivial"]
    coverage = {
        "evaluations": int(agg["evaluations"]),
        "distinct_nontrivial": int(distinct),
        "rule": getattr(mod, "RULE", ""),
        "samples": agg["samples"][:8],
        "counters": dict(sorted(agg["counters"].items())),
        "notes": agg["notes"],
        "shards": len(agg["shard_wall_s"]),
        "shard_wall_s": agg["shard_wall_s"],
        "known_findings_seen": known_seen,
        "violation_keys": {k: agg["viol_counts"].get(k, 0) for k in by_key},
        "inconclusive": inconclusive[:20],
        "repo": git_state(),
        "verdict": "violated" if new_violation else ("inconclusive" if inconclusive else "held"),
    }
    if hasattr(mod, "EXHAUSTIVE") and mod.EXHAUSTIVE.get(tier):
        coverage["exhaustive"] = True
        coverage["exhaustive_space"] = mod.EXHAUSTIVE[tier]
    ev = {
        "property_id": pid,
        "tier": tier,
        "seed": int(seed),
        "level": LEVEL,
        "coverage": coverage,
        "assumptions": list(getattr(mod, "ASSUMPTIONS", [])),
        "wall_s": round(time.time() - t0, 2),
        "violations": int(sum(agg["viol_counts"].get(k, 0) for k in by_key if not (known.get((pid, k)) or {}).get("status") == "open")),
    }
    if coverage["evaluations"] >= 1 and coverage["distinct_nontrivial"] >= 2 and coverage["samples"]:
        err = validate_evidence(ev)
        if err and err != "jsonschema unavailable":
            inconclusive.append(err)
    else:
        inconclusive.append(
            f"too little observed (evaluations={coverage['evaluations']}, distinct_nontrivial={coverage['distinct_nontrivial']}, samples={len(coverage['samples'])})"
        )
    coverage["inconclusive"] = inconclusive[:20]
    coverage["verdict"] = "violated" if new_violation else ("inconclusive" if inconclusive else "held")
    evd = OUT / "evidence"
    evd.mkdir(parents=True, exist_ok=True)
    (evd / f"{pid}.json").write_text(json.dumps(ev, indent=1, sort_keys=False))

    for ln in lines:
        print(ln)
    cs = coverage["counters"]
    brief = ", ".join(f"{k}={v}" for k, v in list(cs.items())[:14])
    print(
        f"{pid} tier={tier} seed={seed}: {coverage['verdict'].upper()} evaluations={coverage['evaluations']} "
        f"distinct_nontrivial={distinct} wall={ev['wall_s']}s [{brief}]"
    )
    if new_violation:
        return 1
    if inconclusive:
        for why in inconclusive[:10]:
            print(f"INCONCLUSIVE property={pid} {why[:600]}")
        return 2
    return 0
