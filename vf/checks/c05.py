"""C05 — GCV selection is optimal on the grid; robust mode never degenerates.

Non-robust: lopt in 10**srange; it minimises the GCV score (tier-1 replica on the compiled ws2d, tier-2 dense);
band == real fixed-lambda kernel at lopt.
Robust: lopt on the grid; state tap on the *interpreted* kernel (same code object, callees compiled): the scale (MAD)
is taken over residuals of valid cells only, final weights are finite, in [0,1], zero on missing cells, >= 2 positive and
the band is the rounded Whittaker curve for exactly those weights; compiled == interpreted; constant / exactly linear
/ flat-with-spikes series are smoothed, not zeroed.
"""

from __future__ import annotations

import math

import numpy as np

from .. import harness as H

from .. import shim
from .. import smooth as S
from ..oracles import whittaker as W

PID = "C05"
RULE = (
    "case = (variant, series, gap mask, srange, p, robust); length 5..200 with >= 5 valid cells, sranges of 2..40 entries "
    "plus the accessor default arange(-1.8,4.2,.2), p in (0,1) or none, series classes incl. constant, exactly linear and "
    "flat-with-spikes (> half of the residuals equal). Non-trivial: criterion not degenerate and scores not all equal "
    "(robust: any non-constant series). distinct = SHA-1 of (variant, y, nodata, grid, p, robust)."
)
ASSUMPTIONS = [
    "GCV score definition as anchored in the property: sum w (y-z)^2 / (N (1 - trH/N)^2), trH from the eigenvalues -2+2cos(k pi/m), e0 = 1e-15",
    "robust state is read from the interpreted run of the same code object (locals mad, r_arr, w_temp, robust_weights); if those names disappear the tap monitors report 0 evaluations and only the boundary monitors decide",
    "curves leaving +-32766 are outside the claim for band comparisons",
]
HARD_TIMEOUT_S = {"quick": 900, "thorough": 3600}

_I = {}


def interp_kernel(variant):
    if variant not in _I:
        _I[variant] = shim.interp(S.K(variant))
    return _I[variant]


def on_grid(lopt, llas):
    g = 10.0 ** np.asarray(llas, dtype=float)
    k = int(np.argmin(np.abs(g - lopt)))
    return k, abs(g[k] - lopt) <= 1e-12 * g[k]


def check_nonrobust(R, variant, yy, nodata, llas, p):
    prm = {"llas": llas, "p": p, "robust": False}
    case = {"variant": variant, "y": yy, "nodata": nodata, "llas": llas, "p": p, "robust": False}
    R.evaluation()
    band, lopt = S.call(variant, yy, nodata, prm)
    band, lopt = np.array(band), float(lopt)
    w = W.valid_full(yy, nodata)
    if w.sum() < 5:
        R.count("below_threshold")
        return
    ycl = np.where(w > 0, yy, 0.0)
    sel = W.gcv_select(ycl, w, llas, S.ws2d_solver)
    finite = np.isfinite(sel["scores"])
    if not np.any(finite):
        R.count("no_finite_score")
        return
    k, ok = on_grid(lopt, llas)
    R.count("grid_membership")
    if not ok:
        R.violation("C05:off-grid", f"{variant}: reported lambda {lopt:.12g} is not one of 10**srange (nearest {10.0 ** llas[k]:.12g})", case)
        return
    # band == fixed-lambda smoother at lopt
    if p is None:
        ref, _ = S.call("ws2dgu", yy, nodata, {"lam": lopt})
        z = S.ws2d_solver(ycl, lopt, w)
    else:
        ref, _ = S.call("ws2dpgu", yy, nodata, {"lam": lopt, "p": p})
        z = W.asym(ycl, lopt, w, p, S.ws2d_solver)["z"]
    R.count("band_vs_fixed")
    if not np.array_equal(band, ref):
        if S.in_int16_claim(z):
            i = int(np.argmax(band != ref))
            R.violation("C05:band-vs-fixed", f"{variant}: band differs from the fixed-lambda smoother at the reported lambda {lopt:.6g} (cell {i}: {int(band[i])} vs {int(ref[i])})", case)
            return
        R.count("excluded_int16")
    # optimality
    scale = max(1.0, float(np.max(np.abs(ycl))))
    sc = np.where(finite, sel["scores"], np.inf)
    wsse_noise = (1e-9 * scale) ** 2 * w.sum()
    zk = [S.ws2d_solver(ycl, 10.0 ** float(ll), w) for ll in llas]
    degenerate = any(float(np.sum(w * (ycl - zz) ** 2)) < wsse_noise for zz in zk)
    allsame = bool(np.ptp(sc[np.isfinite(sc)]) == 0)
    R.case(not degenerate and not allsame, variant, yy, nodata, llas, p, False)
    if degenerate:
        R.count("criterion_degenerate")
        return
    smin = float(np.min(sc))
    R.count("optimal_tier1")
    if not (sc[k] <= smin * (1 + 1e-9)):
        R.violation("C05:not-minimum", f"{variant}: reported lambda 10**{llas[k]:.3f} has GCV {sc[k]:.9g}; grid minimum {smin:.9g} at 10**{llas[int(np.argmin(sc))]:.3f} (replica on the repository's solver)", case)
        return
    sel2 = W.gcv_select(ycl, w, llas, S.dense_solver)
    sc2 = np.where(np.isfinite(sel2["scores"]), sel2["scores"], np.inf)
    both = np.isfinite(sc) & np.isfinite(sc2)
    dis = float(np.max(np.abs(sc2[both] - sc[both]))) if both.any() else 0.0
    smin2 = float(np.min(sc2))
    R.count("optimal_tier2")
    R.note_max("max_gcv_disagreement_rel", dis / max(smin2, 1e-300))
    if not (sc2[k] <= smin2 + 10 * dis + 1e-9 * smin2):
        R.violation("C05:not-minimum-dense", f"{variant}: reported lambda 10**{llas[k]:.3f} has GCV {sc2[k]:.9g}; independent minimum {smin2:.9g} at 10**{llas[int(np.argmin(sc2))]:.3f}", case)
        return
    if R.want_sample():
        R.sample({"variant": variant, "robust": False, "y": yy[:14], "nodata": nodata, "grid": [float(llas[0]), float(llas[-1]), int(llas.size)], "p": p,
                  "log10_lopt": math.log10(lopt), "gcv": sc[:6], "band": band[:14]})


def check_robust(R, variant, yy, nodata, llas, p, ykind):
    prm = {"llas": llas, "p": p, "robust": True}
    case = {"variant": variant, "y": yy, "nodata": nodata, "llas": llas, "p": p, "robust": True, "series_kind": ykind}
    R.evaluation()
    w = W.valid_full(yy, nodata)
    try:
        band, lopt = S.call(variant, yy, nodata, prm)
    except Exception as e:
        R.violation("C05:robust-raises", f"{variant}(robust) raises {type(e).__name__}: {str(e)[:200]}", case)
        return
    band, lopt = np.array(band), float(lopt)
    if w.sum() < 5:
        R.count("below_threshold")
        return
    ycl = np.where(w > 0, yy, 0.0)
    valid = w > 0
    R.case(bool(np.ptp(ycl[valid]) > 0), variant, yy, nodata, llas, p, True)
    # (a) grid membership
    k, ok = on_grid(lopt, llas) if lopt > 0 else (0, False)
    R.count("grid_membership_robust")
    if not ok:
        R.violation("C05:off-grid-robust", f"{variant}(robust): reported lambda {lopt!r} is not one of 10**srange", case)
        return
    # (b) the result does not depend on how the missing cells are encoded (finite placeholders, NaN, +-inf)
    if (~valid).any():
        lo_v, hi_v = float(ycl[valid].min()), float(ycl[valid].max())
        others = [v for v in (-3000.0, -32768.0, 32767.0, 30000.0, 1e30) if v != nodata and not (lo_v <= v <= hi_v)]
        for lab, val, nd2 in [("nan", np.nan, nodata), ("+inf", np.inf, nodata), ("-inf", -np.inf, nodata)] + [(f"placeholder {v:g}", v, v) for v in others[:2]]:
            y2 = np.where(valid, yy, val)
            try:
                b2, l2 = S.call(variant, y2, nd2, prm)
            except Exception as e:
                R.violation("C05:placeholder-robust", f"{variant}(robust) raises {type(e).__name__} when missing cells are encoded as {lab}", dict(case, encoding=lab))
                return
            R.count("placeholder_pairs_robust")
            if float(l2) != lopt or not np.array_equal(np.array(b2), band):
                R.violation("C05:placeholder-robust", f"{variant}(robust): result depends on the encoding of the missing cells ({lab}): lambda {lopt:.6g} vs {float(l2):.6g}, {int(np.sum(np.array(b2) != band))} cells differ", dict(case, encoding=lab))
                return
    # (d) degenerate residual distributions are smoothed, not zeroed
    yv = ycl[valid]
    if ykind == "const":
        R.count("degenerate_const")
        if not np.all(band == int(yv[0])):
            R.violation("C05:robust-degenerate", f"{variant}(robust): constant series {int(yv[0])} is returned as {band[:8].tolist()}...", case)
            return
    elif ykind == "linear":
        R.count("degenerate_linear")
        t = np.arange(yy.size)
        a, b = np.polyfit(t[valid], yv, 1)
        line = np.round(a * t + b)
        if S.in_int16_claim(line) and np.max(np.abs(band - line)) > 0:
            R.violation("C05:robust-degenerate", f"{variant}(robust): exactly linear series is not returned as the same line (max dev {int(np.max(np.abs(band - line)))}; first cells {band[:6].tolist()} vs {line[:6].astype(int).tolist()})", case)
            return
    elif ykind == "flatspikes":
        R.count("degenerate_flatspikes")
    if np.all(np.abs(yv) >= 100) and np.all(band[valid] == 0):
        R.violation("C05:robust-degenerate", f"{variant}(robust): all-zero band for data with |y| >= 100 (series kind {ykind})", case)
        return
    # (c)+(e) state tap on the interpreted code object
    f = interp_kernel(variant)
    out_i = np.zeros(yy.size, dtype=np.int16)
    lopt_i = np.zeros(1)
    lines = {("mad = np.median(np.abs(r_arr[", "u_arr = r_arr /"): ["mad", "r_arr", "w_temp", "gamma", "gcv_temp", "s"]}
    try:
        with np.errstate(all="ignore"), shim.Tap(f, at_return=["robust_weights", "w"], lines=lines) as tap:
            if variant == "ws2dwcv":
                f(yy.astype(float), nodata, np.asarray(llas, dtype=float), True, out_i, lopt_i)
            else:
                f(yy.astype(float), nodata, p, np.asarray(llas, dtype=float), True, out_i, lopt_i)
    except ValueError as e:  # source no longer offers the tapped names / fragments
        R.count("tap_unavailable")
        tap = None
    if tap is not None:
        R.count("interpreted_runs")
        # 10**srange is evaluated by Numba's pow in one world and NumPy's in the other: the reported lambdas may differ
        # in the last ulp; the bands are then solutions for (minutely) different lambdas and are only compared when the
        # lambdas are bit-identical (an extrapolated tail can amplify one ulp of lambda to a unit of the curve).
        zc = S.ws2d_solver(ycl, lopt, w)
        li = float(lopt_i[0])
        if li != lopt and abs(li - lopt) <= 1e-12 * lopt:
            R.count("cvi_lopt_last_ulp")
        tie_only = False
        if li == lopt and not np.array_equal(out_i, band) and tap.ret and tap.ret[0].get("robust_weights") is not None:
            # same lambda, same weights: the two worlds may still round an exact .5 differently (curve through two
            # weighted cells of integer data sits on ties); tolerated only at cells within 1e-6 of a rounding tie
            rw_t = tap.ret[0]["robust_weights"]
            zt = S.ws2d_solver(ycl, li, rw_t) if variant == "ws2dwcv" else W.asym(ycl, li, rw_t, p, S.ws2d_solver)["z"]
            dd = np.abs(out_i.astype(np.int64) - band.astype(np.int64))
            fr = np.abs(zt - np.floor(zt) - 0.5)
            tie_only = bool(np.all(dd <= 1) and np.all(fr[dd > 0] <= 1e-6))
            if tie_only:
                R.count("cvi_rounding_ties")
            elif variant == "ws2dwcvp" and W.asym(ycl, li, np.asarray(rw_t, dtype=float), p, S.ws2d_solver)["min_margin"] < 1e-9 * max(1.0, float(np.max(np.abs(ycl)))):
                # an envelope decision y > z is taken on a residual at rounding-noise level (flat stretches are fitted
                # exactly): the asymmetric weights of those cells are noise in both worlds (same class as in C03)
                tie_only = True
                R.count("cvi_irls_sign_degenerate")
            elif np.all(dd <= 3):
                # the lambdas (10**srange) and weights of the two worlds differ in the last ulp; every solve along the robust
                # iterations amplifies that by kappa(W_it + s_it D'D) into the residual scale and hence the next weights.
                # Excluded when the worst kappa*eps*max|y| along the tapped path reaches 1e-5 (long outages, large s: the
                # C01 known-finding regime); measured witness: s = 3.2e6 in the first pass -> MAD differs by 5e-7 relative
                path = [(np.asarray(loc["w_temp"], dtype=float), float(loc["s"])) for _, loc in tap.events if loc.get("w_temp") is not None and loc.get("s") is not None]
                path.append((np.asarray(rw_t, dtype=float), li))
                keps = max(W.cond2(yy.size, wt, st_) for wt, st_ in path if (wt > 0).sum() >= 2) * 2.0 ** -53
                R.note_max("max_cvi_path_kappa_eps", keps)
                if keps * float(np.max(np.abs(ycl))) >= 1e-5:
                    tie_only = True
                    R.count("cvi_ill_conditioned_excluded")
        if abs(li - lopt) > 1e-12 * lopt or (li == lopt and not np.array_equal(out_i, band) and not tie_only):
            scale = max(1.0, float(np.max(np.abs(ycl))))
            noise = (1e-9 * scale) ** 2 * w.sum()
            tapped_best = [float(loc["gcv_temp"][0]) for _, loc in tap.events if loc.get("gcv_temp") is not None]
            if any(b < (1e-9 * scale) ** 2 for b in tapped_best) or any(float(np.sum(w * (ycl - S.ws2d_solver(ycl, 10.0 ** float(ll), w)) ** 2)) < noise for ll in llas):
                # GCV scores at rounding-noise level (exactly reproducible data): the argmin is summation-order noise
                R.count("cvi_criterion_degenerate")
            elif tap.ret and tap.ret[0].get("robust_weights") is not None and li == lopt and not S.in_int16_claim(
                    S.ws2d_solver(ycl, li, np.asarray(tap.ret[0]["robust_weights"], dtype=float)) if variant == "ws2dwcv"
                    else W.asym(ycl, li, np.asarray(tap.ret[0]["robust_weights"], dtype=float), p, S.ws2d_solver)["z"]):
                # the curve the kernel rounded (robust weights, not w) leaves the int16 range: outside the claim
                R.count("excluded_int16")
            elif S.in_int16_claim(zc):
                R.violation("C05:compiled-vs-interpreted", f"{variant}(robust): compiled (lopt {lopt:.6g}) and interpreted (lopt {float(lopt_i[0]):.6g}) runs of the same source differ", case)
                return
        for frag, loc in tap.events:
            if loc.get("mad") is None or loc.get("r_arr") is None or loc.get("w_temp") is None:
                continue
            carry = (loc["w_temp"] != 0) & valid
            R.count("mad_taps")
            if carry.sum() == 0:
                continue
            r = loc["r_arr"][carry]
            mad_exp = float(np.median(np.abs(r - np.median(r))))
            mad = float(loc["mad"])
            if not (abs(mad - mad_exp) <= 1e-9 * max(mad_exp, 1e-300)) and not (mad_exp == 0 and mad == 0):
                nmiss = int((~valid).sum())
                R.violation("C05:mad-over-missing", f"{variant}(robust): residual scale MAD={mad:.9g} but over the valid weighted cells it is {mad_exp:.9g} ({nmiss} missing cells take part)", case)
                return
            if mad_exp == 0:
                R.count("mad_zero_taps")
        rw = tap.ret[0].get("robust_weights") if tap.ret else None
        if rw is not None:
            R.count("final_weight_taps")
            if not np.all(np.isfinite(rw)) or np.any(rw < 0) or np.any(rw > 1 + 1e-12) or np.any(rw[~valid] != 0) or int((rw > 0).sum()) < 2:
                R.violation("C05:robust-weights", f"{variant}(robust): final robust weights not finite/in [0,1]/zero on missing cells/>=2 positive: min {np.nanmin(rw) if rw.size else None}, nan {int(np.isnan(rw).sum())}, positive {int((rw > 0).sum())}", case)
                return
            li = float(lopt_i[0])
            z = S.ws2d_solver(ycl, li, rw) if variant == "ws2dwcv" else W.asym(ycl, li, rw, p, S.ws2d_solver)["z"]
            if S.in_int16_claim(z):
                R.count("band_is_curve_of_tapped_weights")
                if not np.array_equal(out_i, W.round_i16(z)):
                    R.violation("C05:band-vs-weights", f"{variant}(robust): band is not the rounded Whittaker curve for the final robust weights at the reported lambda", case)
                    return
            else:
                R.count("excluded_int16")
    if R.want_sample():
        R.sample({"variant": variant, "robust": True, "kind": ykind, "y": yy[:14], "nodata": nodata, "p": p, "log10_lopt": math.log10(lopt), "band": band[:14]})


def gen_case(rng, it, robust):
    n = int(rng.choice([5, 6, 8, 12, 20, 36, 72, 120, 200])) if it % 3 else int(rng.integers(5, 201))
    kinds = ["season", "noise", "walk", "steps", "spiky", "smallrange", "neg", "const", "linear", "flatspikes", "flatspikes", "flatspikes", "nearflat", "nearflat", "nearflat"]
    kind = kinds[it % len(kinds)]
    if kind == "nearflat":
        # a quiet series (a few counts of noise) with one to three large spikes or bumps: the first robust pass accepts new
        # weights, a later one finds (almost) nothing left to weight and must keep the weights it has
        n = int(rng.integers(10, 41))
    if kind == "const":
        # 0 is the constant people special-case (an all-dry pixel): every fit, residual and score is exactly 0.0
        y = np.full(n, float([0, rng.integers(-5000, 5000), 0, 1, -1, rng.integers(-5000, 5000)][(it // 12) % 6]))
    elif kind == "linear":
        y = (rng.integers(-20, 21) * np.arange(n) + rng.integers(-3000, 3000)).astype(float)
    elif kind == "nearflat":
        y = float(rng.integers(50, 3000)) + rng.choice([-2, -1, 0, 0, 0, 1, 1, 2], n).astype(float)
        k = int(rng.integers(1, 4))
        pos = rng.choice(n, k, replace=False)
        y[pos] += rng.integers(300, 3000, k) * rng.choice([-1, 1], k)
        if rng.random() < 0.3:  # a bump two cells wide
            y[np.minimum(pos + 1, n - 1)] = y[pos]
    elif kind == "flatspikes":
        y = np.full(n, float(rng.integers(100, 5000)))
        k = max(1, int(n * rng.uniform(0.05, 0.3)))
        y[rng.choice(n, k, replace=False)] += rng.integers(200, 4000, k) * rng.choice([-1, 1], k)
    else:
        y = S.gen_series(rng, n, kind=kind)
    cands = [v for v in (-3000.0, -32768.0, 32767.0, 30000.0, 0.0) if not np.any(y == v)]  # never alter the series itself
    nodata = float(cands[int(rng.integers(0, len(cands)))])
    mask = S.gen_mask(rng, n, kind=None if rng.random() < 0.5 else "none", min_valid=5)
    if kind == "flatspikes" and it % 2:
        mask = S.gen_mask(rng, n, kind="runs", min_valid=5)  # long outages next to a collapsed residual scale
    return np.where(mask, nodata, y), nodata, kind


def shard_accessor(spec, R):
    import pandas as pd
    import xarray as xr
    import hdc.algo  # noqa

    rng = np.random.default_rng([spec["seed"], 5, 9, spec["sub"]])
    S.warm(["ws2dwcv", "ws2dwcvp"])
    for it in range(spec["cases"]):
        if R.out_of_time():
            break
        ny, nx, nt = int(rng.integers(1, 4)), int(rng.integers(1, 4)), int(rng.choice([6, 9, 24, 60]))
        nodata = float(rng.choice([-3000, 0, 32767]))
        cube = np.empty((ny, nx, nt), dtype=np.int16)
        for a in range(ny):
            for b in range(nx):
                y = S.gen_series(rng, nt)
                y = np.where(y == nodata, y + 1, y)
                m = S.gen_mask(rng, nt, min_valid=None if rng.random() < 0.1 else 5)
                cube[a, b] = np.where(m, nodata, y)
        named = bool(H.pick(it, 1, 2))
        da = xr.DataArray(cube, dims=["y", "x", "time"], coords={"time": pd.date_range("2020-01-01", periods=nt, freq="10D")},
                          attrs={"nodata": nodata}, name="ndvi" if named else None)
        order = [("y", "x", "time"), ("time", "y", "x"), ("y", "time", "x")][H.pick(it, 2, 3)]
        da = da.transpose(*order)
        use_p = bool(H.pick(it, 3, 2))
        p = float([0.5, rng.uniform(0.05, 0.95), 0.99, rng.uniform(0.05, 0.95), 0.01][H.pick(it, 4, 5)]) if use_p else None
        mode = H.pick(it, 5, 4)  # 0: all defaults (robust=True, default grid); 1: robust False; 2: custom grid; 3: custom grid robust False
        kw = {}
        llas = np.arange(-1.8, 4.2, 0.2)
        robust = True
        if mode in (2, 3):
            llas = S.gen_llas(rng)
            kw["srange"] = llas
        if mode in (1, 3):
            robust = False
            kw["robust"] = False
        if use_p:
            kw["p"] = p
        ds = da.hdc.whit.whitswcv(nodata=nodata, **kw)
        R.evaluation()
        case = {"accessor": "whitswcv", "cube": cube, "nodata": nodata, "kw": {k: v for k, v in kw.items()}, "order": list(order)}
        bname = "ndvi" if named else "band"
        if set(ds.data_vars) != {bname, "sgrid"} or ds["sgrid"].dtype != np.float32 or ds[bname].dtype != np.int16:
            R.violation("C05:accessor-dataset", f"whitswcv returned variables {list(ds.data_vars)}, sgrid dtype {ds['sgrid'].dtype}", case)
            continue
        out = ds[bname].transpose("y", "x", "time").values
        sg = ds["sgrid"].transpose("y", "x").values
        variant = "ws2dwcvp" if use_p else "ws2dwcv"
        for a in range(ny):
            for b in range(nx):
                eb, el = S.call(variant, cube[a, b], nodata, {"llas": llas, "p": p, "robust": robust})
                with np.errstate(divide="ignore"):
                    esg = np.float32(np.log10(float(el)))
                R.count("accessor_pixels")
                R.count("accessor_default_robust" if mode == 0 else "accessor_other")
                if not np.array_equal(out[a, b], eb) or not (sg[a, b] == esg):
                    R.violation("C05:accessor", f"whitswcv({list(kw)}) pixel ({a},{b}): sgrid {sg[a, b]!r} vs float32(log10(lopt)) {esg!r}; band equal: {np.array_equal(out[a, b], eb)}", case)


def plan(tier, seed):
    q = tier == "quick"
    specs = []
    for v in ("ws2dwcv", "ws2dwcvp"):
        for i in range(3 if q else 6):
            specs.append({"kind": "nonrobust", "variant": v, "sub": i, "cases": 200 if q else 8000, "budget_s": 110 if q else 600})
        for i in range(4 if q else 8):
            specs.append({"kind": "robust", "variant": v, "sub": i, "cases": 150 if q else 6000, "budget_s": 110 if q else 600})
    for i in range(2 if q else 8):
        specs.append({"kind": "accessor", "sub": i, "cases": 24 if q else 400, "budget_s": 110 if q else 600})
    for v in ("ws2dwcv", "ws2dwcvp"):
        for i in range(1 if q else 4):
            specs.append({"kind": "screen", "variant": v, "sub": i, "rounds": 8 if q else 60, "rows": 4000, "take": 6, "budget_s": 110 if q else 600})
    return specs


def run_shard(spec, R):
    kind = spec["kind"]
    if kind == "accessor":
        return shard_accessor(spec, R)
    if kind == "screen":
        return shard_screen(spec, R)
    variant = spec["variant"]
    rng = np.random.default_rng([spec["seed"], 5, {"nonrobust": 1, "robust": 2}[kind], S.VARIANTS.index(variant), spec["sub"]])
    S.warm([variant, "ws2dgu" if variant == "ws2dwcv" else "ws2dpgu"])
    for it in range(spec["cases"]):
        if R.out_of_time():
            R.count("stopped_on_budget")
            break
        yy, nodata, ykind = gen_case(rng, it, kind == "robust")
        llas = np.arange(-1.8, 4.2, 0.2) if it % 4 == 0 else S.gen_llas(rng, kind=None if it % 4 != 1 else "short")
        p = None if variant == "ws2dwcv" else float(rng.choice([0.1, 0.5, 0.9, rng.uniform(0.02, 0.98)]))
        R.count("series_" + ykind)
        if kind == "nonrobust":
            check_nonrobust(R, variant, yy, nodata, llas, p)
        else:
            check_robust(R, variant, yy, nodata, llas, p, ykind)


def shard_screen(spec, R):
    """Workload selection for rare robust paths.  Thousands of quiet series with a few spikes are pushed through the real
    robust kernel in one broadcast call; the handful whose output strays furthest from the data (and every one that
    leaves the range of its input) is then given to the full robust oracle.  The screening decides nothing: it only
    chooses which executions the monitors look at, so that a weight vector that collapses on one series in a thousand
    is among them."""
    variant = spec["variant"]
    rng = np.random.default_rng([spec["seed"], 5, 9, S.VARIANTS.index(variant), spec["sub"]])
    S.warm([variant, "ws2dgu" if variant == "ws2dwcv" else "ws2dpgu"])
    k = S.K(variant)
    nodata = -3000.0
    for rnd in range(spec["rounds"]):
        if R.out_of_time():
            R.count("stopped_on_budget")
            break
        n = int(rng.choice([10, 12, 16, 20, 24, 30, 40]))
        rows = spec["rows"]
        Y = rng.integers(50, 3000, (rows, 1)).astype(float) + rng.choice([-2, -1, 0, 0, 0, 1, 1, 2], (rows, n))
        for _ in range(3):
            hit = rng.random(rows) < [1.0, 0.6, 0.3][_]
            pos = rng.integers(0, n, rows)
            amp = rng.integers(300, 3000, rows) * rng.choice([-1, 1], rows)
            Y[np.flatnonzero(hit), pos[hit]] += amp[hit]
        llas = np.arange(-1.8, 4.2, 0.2) if rnd % 2 == 0 else S.gen_llas(rng)
        p = None if variant == "ws2dwcv" else float(rng.choice([0.1, 0.5, 0.9, rng.uniform(0.02, 0.98)]))
        with np.errstate(all="ignore"):
            if variant == "ws2dwcv":
                band, lopt = k(Y, nodata, llas, True)
            else:
                band, lopt = k(Y, nodata, p, llas, True)
        R.count("screened_series", rows)
        med = np.median(Y, axis=1, keepdims=True)
        score = np.max(np.abs(band - med), axis=1) / (np.max(np.abs(Y - med), axis=1) + 1.0)
        order = np.argsort(score)[::-1]
        chosen = [int(i) for i in order[:spec["take"]]] + [int(i) for i in np.flatnonzero(score > 1.05)[:spec["take"]]]
        R.note_max("screen_max_excursion_ratio", float(score.max()))
        for i in dict.fromkeys(chosen):
            R.count("screened_series_given_to_the_robust_oracle")
            check_robust(R, variant, Y[i].copy(), nodata, llas, p, "nearflat")


def finalize(agg, tier):
    c = agg["counters"]
    out = []
    for k in ("grid_membership", "band_vs_fixed", "optimal_tier1", "optimal_tier2", "grid_membership_robust", "placeholder_pairs_robust", "degenerate_const",
              "degenerate_linear", "degenerate_flatspikes", "accessor_pixels", "accessor_default_robust"):
        if c.get(k, 0) == 0:
            out.append(f"monitor/class {k} never observed")
    return out


def replay(case, R):
    if "variant" not in case:
        R.inconclusive_because("accessor witness: re-run the accessor shard")
        return
    v = case["variant"]
    S.warm([v, "ws2dgu", "ws2dpgu"])
    yy = np.asarray(case["y"], dtype=float)
    llas = np.asarray(case["llas"], dtype=float)
    p = None if case["p"] is None else float(case["p"])
    if case["robust"]:
        check_robust(R, v, yy, float(case["nodata"]), llas, p, case.get("series_kind", "?"))
    else:
        check_nonrobust(R, v, yy, float(case["nodata"]), llas, p)
