"""C03 — fixed-lambda smoothers return the rounded PLS / expectile curve.

Oracles (boundary monitors on the real gufuncs and on DataArray.hdc.whit.whits):
 tier 1  replica of the wrapper logic around the repository's compiled ws2d  -> band must be bit-equal
 tier 2  the same logic around an independent LAPACK solve                  -> +-1 only at rounding ties
"""

from __future__ import annotations

import itertools

import numpy as np

from .. import harness as H

from .. import smooth as S
from ..oracles import whittaker as W

PID = "C03"
RULE = (
    "case = (series, gap mask, lambda, p); series classes noise/season/walk/steps/spiky/smallrange/neg, length 4..400, "
    "lambda in 10**[-3,5] plus 0, p in (0,1) incl. 0.01/0.5/0.99, gaps on half of the cases. Non-trivial: series not "
    "constant (and for p: >= 2 reweighting passes observed). distinct = SHA-1 of (variant, y, nodata, lambda, p)."
)
ASSUMPTIONS = [
    "tier 1 relies on ws2d being the PLS solver (C01)",
    "curves leaving +-32766 are outside the claim and only counted",
    "a tier-2 mismatch with kappa_2(W + lam D'D) * 2^-53 >= 1e-7 and deviation <= 0.5 + 10*kappa*eps*max|z| is the recorded finding C03:ill-conditioned (float64 error of ws2d, C01:ill-conditioned), every other mismatch fails the run",
    "tier 2 skips cases where an IRLS sign decision y > z has |y - z| < 1e-9*max|y| (counted as irls_sign_degenerate)",
]
HARD_TIMEOUT_S = {"quick": 900, "thorough": 3600}


def gen_case(rng, it):
    n = int(rng.choice([4, 5, 6, 8, 12, 20, 36, 72, 150, 400])) if it % 3 else int(rng.integers(4, 401))
    y = S.gen_series(rng, n)
    gap = rng.random() < 0.5
    mask = S.gen_mask(rng, n, kind=None if gap else "none", min_valid=2)
    nodata = float(rng.choice([-3000, -32768, 32767, 30000, 0, -1]))
    # placeholder must not collide with valid data
    y = np.where(y == nodata, y + 1, y)
    yy = np.where(mask, nodata, y)
    r = rng.random()
    if r < 0.06:
        lam = 0.0
    elif r < 0.3:
        lam = float(10.0 ** rng.choice([-3, -0.5, 0, 1, 2, 5]))
    else:
        lam = float(10.0 ** rng.uniform(-3, 5))
    p = float(rng.choice([0.01, 0.5, 0.99, 0.9, 0.1])) if rng.random() < 0.4 else float(rng.uniform(0.001, 0.999))
    return yy, nodata, lam, p


def classify_mismatch(band, z, ww, lam, name):
    """A wrapper that already equals round(ws2d(y, lam, w)) (tier 1) but not the rounding of the independently solved
    curve can only differ through the float64 error of ws2d itself.  For a system with kappa_2 * 2^-53 >= 1e-7 that is
    the recorded finding C01:ill-conditioned seen through the int16 rounding (key C03:ill-conditioned), as long as the
    deviation stays inside the forward-error bound 10 * kappa * eps * max|z|; anything else is a new violation."""
    keps = W.cond2(len(z), ww, lam) * 2.0 ** -53
    dev = float(np.max(np.abs(band.astype(float) - z)))
    if keps >= 1e-7 and np.isfinite(dev) and dev <= 0.5 + 10 * keps * max(1.0, float(np.max(np.abs(z)))):
        return "C03:ill-conditioned", keps
    return "C03:" + name, keps


# the recorded witness of C03:ill-conditioned: three valid cells followed by a 397-cell gap, lambda = 10**4.861
WITNESS = {"n": 400, "head": [-795.0, -773.0, -756.0], "nodata": -32768.0, "lam": 72604.91266778413}


def check_gu(R, yy, nodata, lam):
    band, _ = S.call("ws2dgu", yy, nodata, {"lam": lam})
    w = W.valid_full(yy, nodata)
    case = {"variant": "ws2dgu", "y": yy, "nodata": nodata, "lam": lam}
    R.evaluation()
    nontriv = bool(np.ptp(yy[w > 0]) > 0) if w.sum() > 0 else False
    R.case(nontriv, "gu", yy, nodata, lam)
    if lam == 0.0 or w.sum() <= 1:
        R.count("passthrough_cases")
        if not np.array_equal(band, yy.astype(np.int16)):
            R.violation("C03:passthrough", f"lambda={lam}, valid={int(w.sum())}: output differs from the input", case)
        return
    z1 = S.ws2d_solver(yy, lam, w)
    if not S.in_int16_claim(z1):
        R.count("excluded_int16")
        return
    R.count("tier1_gu")
    if not np.array_equal(band, W.round_i16(z1)):
        i = int(np.argmax(band != W.round_i16(z1)))
        R.violation("C03:gu-replica", f"ws2dgu != round(ws2d(y, lam, w)) at cell {i}: {int(band[i])} vs {int(W.round_i16(z1)[i])} (lam={lam:.5g})", case)
        return
    z2 = S.dense_solver(yy, lam, w)
    delta = 10 * float(np.max(np.abs(z2 - z1))) + 1e-9
    ok, nties, i = S.band_matches(band, z2, delta)
    R.count("tier2_gu")
    R.count("tier2_ties_tolerated", nties)
    R.note_max("max_solver_disagreement", float(np.max(np.abs(z2 - z1))))
    if not ok:
        key, keps = classify_mismatch(band, z2, w, lam, "gu-dense")
        R.violation(key, f"ws2dgu != rounded PLS curve (independent solve) at cell {i}: {int(band[i])} vs {z2[i]:.6f} (lam={lam:.5g}, valid={int(w.sum())}/{w.size}, kappa*eps={keps:.3g})", case)
    if R.want_sample() and nontriv:
        R.sample({"variant": "ws2dgu", "y": yy[:16], "nodata": nodata, "lam": lam, "band": band[:16]})


def check_pgu(R, yy, nodata, lam, p):
    band, _ = S.call("ws2dpgu", yy, nodata, {"lam": lam, "p": p})
    w = W.valid_full(yy, nodata)
    case = {"variant": "ws2dpgu", "y": yy, "nodata": nodata, "lam": lam, "p": p}
    R.evaluation()
    if lam == 0.0 or w.sum() <= 1:
        R.count("passthrough_cases")
        R.case(False, "pgu", yy, nodata, lam, p)
        if not np.array_equal(band, yy.astype(np.int16)):
            R.violation("C03:passthrough", f"lambda={lam}, valid={int(w.sum())}: output differs from the input", case)
        return
    r1 = W.asym(yy, lam, w, p, S.ws2d_solver)
    nontriv = bool(np.ptp(yy[w > 0]) > 0 and r1["passes"] >= 2)
    R.case(nontriv, "pgu", yy, nodata, lam, p)
    R.count(f"irls_passes_{r1['passes']}")
    if not S.in_int16_claim(r1["z"]):
        R.count("excluded_int16")
        return
    R.count("tier1_pgu")
    if not np.array_equal(band, W.round_i16(r1["z"])):
        i = int(np.argmax(band != W.round_i16(r1["z"])))
        R.violation("C03:pgu-replica", f"ws2dpgu != rounded expectile curve (<=10 passes from zero) at cell {i}: {int(band[i])} vs {int(W.round_i16(r1['z'])[i])} (lam={lam:.5g}, p={p:.4g}, passes={r1['passes']})", case)
        return
    r2 = W.asym(yy, lam, w, p, S.dense_solver)
    scale = max(1.0, float(np.max(np.abs(yy[w > 0]))))
    if min(r1["min_margin"], r2["min_margin"]) < 1e-9 * scale or not np.array_equal(r1["ww"], r2["ww"]):
        R.count("irls_sign_degenerate")
        return
    delta = 10 * float(np.max(np.abs(r2["z"] - r1["z"]))) + 1e-9
    ok, nties, i = S.band_matches(band, r2["z"], delta)
    R.count("tier2_pgu")
    R.count("tier2_ties_tolerated", nties)
    if not ok:
        key, keps = classify_mismatch(band, r2["z"], r2["ww"], lam, "pgu-dense")
        R.violation(key, f"ws2dpgu != rounded expectile curve (independent solve) at cell {i}: {int(band[i])} vs {r2['z'][i]:.6f} (lam={lam:.5g}, p={p:.4g}, valid={int(w.sum())}/{w.size}, kappa*eps={keps:.3g})", case)
    if R.want_sample() and nontriv:
        R.sample({"variant": "ws2dpgu", "y": yy[:16], "nodata": nodata, "lam": lam, "p": p, "passes": r1["passes"], "band": band[:16]})


def shard_accessor(spec, R):
    import xarray as xr
    import pandas as pd
    import hdc.algo  # noqa

    rng = np.random.default_rng([spec["seed"], 3, 9, spec["sub"]])
    orders = list(itertools.permutations(["time", "y", "x"]))
    for it in range(spec["cases"]):
        if R.out_of_time():
            break
        ny, nx, nt = int(rng.integers(1, 4)), int(rng.integers(1, 4)), int(rng.choice([4, 5, 9, 24, 60]))
        if it % 2:
            nx = ny = max(2, ny)  # square grids: a positional mix-up of y and x would not even raise
        nodata = float(rng.choice([-3000, 0, 32767]))
        cube = np.empty((ny, nx, nt))
        for a in range(ny):
            for b in range(nx):
                y = S.gen_series(rng, nt)
                y = np.where(y == nodata, y + 1, y)
                m = S.gen_mask(rng, nt, min_valid=None if rng.random() < 0.15 else 2)
                cube[a, b] = np.where(m, nodata, y)
        dtype = rng.choice(["int16", "float64"])
        da = xr.DataArray(cube.astype(dtype), dims=["y", "x", "time"],
                          coords={"time": pd.date_range("2020-01-01", periods=nt, freq="10D"), "y": np.arange(ny), "x": np.arange(nx)},
                          attrs={"nodata": nodata}, name="band")
        order = orders[H.pick(it, 1, 6)]
        da = da.transpose(*order)
        use_p = bool(H.pick(it, 2, 2))
        p = float([0.5, rng.uniform(0.05, 0.95), 0.99, rng.uniform(0.05, 0.95), 0.01][H.pick(it, 3, 5)]) if use_p else None
        mode = H.pick(it, 4, 3)
        if mode == 0:
            s = float(10.0 ** rng.uniform(-3, 5))
            res = da.hdc.whit.whits(nodata=nodata, s=s, p=p)
            lam = np.full((ny, nx), s)
        else:
            sgv = rng.uniform(-3, 5, (ny, nx))
            if mode == 2:
                sgv[rng.random((ny, nx)) < 0.4] = -np.inf
            sg = xr.DataArray(sgv, dims=["y", "x"], coords={"y": np.arange(ny), "x": np.arange(nx)})
            # the sgrid is matched to pixels by dimension *name*: hand it over in another dim order, or one-dimensional
            sgk = H.pick(it, 5, 4)
            if sgk == 1:
                sg = sg.transpose("x", "y")
                R.count("accessor_sgrid_transposed")
            elif sgk == 2:
                sgv = np.repeat(sgv[:, :1], nx, axis=1)
                sg = xr.DataArray(sgv[:, 0], dims=["y"], coords={"y": np.arange(ny)})
                R.count("accessor_sgrid_1d")
            elif sgk == 3:
                sg = sg.drop_vars(["y", "x"])
            res = da.hdc.whit.whits(nodata=nodata, sg=sg, p=p)
            lam = 10.0 ** sgv
        R.evaluation()
        R.case(True, "acc", cube, nodata, lam, p, order)
        case = {"cube": cube, "nodata": nodata, "lam": lam, "p": p, "order": list(order), "dtype": str(dtype)}
        if res.dtype != np.int16 or set(res.dims) != {"time", "y", "x"} or res.dims[-1] != "time":
            R.violation("C03:accessor-shape", f"whits returned dtype {res.dtype}, dims {res.dims}", case)
            continue
        out = res.transpose("y", "x", "time").values
        for a in range(ny):
            for b in range(nx):
                yy = cube[a, b].astype(dtype).astype(np.float64)
                if use_p:
                    exp, _ = S.call("ws2dpgu", yy, nodata, {"lam": float(lam[a, b]), "p": p})
                else:
                    exp, _ = S.call("ws2dgu", yy, nodata, {"lam": float(lam[a, b])})
                R.count("accessor_pixels")
                if lam[a, b] == 0:
                    R.count("accessor_minus_inf_cells")
                if not np.array_equal(out[a, b], exp):
                    R.violation("C03:accessor", f"whits(order={order}, p={p}) pixel ({a},{b}) differs from the kernel on the same series/lambda", case)
                # and the kernel itself is held to the definition on these inputs
                if use_p:
                    check_pgu(R, yy, nodata, float(lam[a, b]), p)
                else:
                    check_gu(R, yy, nodata, float(lam[a, b]))
        if R.want_sample():
            R.sample({"accessor": "whits", "order": list(order), "p": p, "lam": lam, "first_pixel_in": cube[0, 0][:10], "first_pixel_out": out[0, 0][:10]})


def plan(tier, seed):
    q = tier == "quick"
    specs = []
    for i in range(6 if q else 16):
        specs.append({"kind": "gu", "sub": i, "cases": 400 if q else 15000, "budget_s": 120 if q else 600})
    for i in range(7 if q else 16):
        specs.append({"kind": "pgu", "sub": i, "cases": 300 if q else 10000, "budget_s": 120 if q else 600})
    for i in range(3 if q else 8):
        specs.append({"kind": "accessor", "sub": i, "cases": 24 if q else 600, "budget_s": 120 if q else 600})
    return specs


def run_shard(spec, R):
    kind = spec["kind"]
    rng = np.random.default_rng([spec["seed"], 3, {"gu": 1, "pgu": 2, "accessor": 3}[kind], spec["sub"]])
    if kind == "gu":
        S.warm(["ws2dgu"])
        if spec["sub"] == 0:  # the recorded witness of the known finding is re-observed on every run
            yw = np.full(WITNESS["n"], WITNESS["nodata"])
            yw[:3] = WITNESS["head"]
            check_gu(R, yw, WITNESS["nodata"], WITNESS["lam"])
            R.count("known_finding_witness_runs")
        for it in range(spec["cases"]):
            if R.out_of_time():
                R.count("stopped_on_budget")
                break
            yy, nodata, lam, _ = gen_case(rng, it)
            check_gu(R, yy, nodata, lam)
    elif kind == "pgu":
        S.warm(["ws2dpgu"])
        for it in range(spec["cases"]):
            if R.out_of_time():
                R.count("stopped_on_budget")
                break
            yy, nodata, lam, p = gen_case(rng, it)
            check_pgu(R, yy, nodata, lam, p)
    else:
        S.warm(["ws2dgu", "ws2dpgu"])
        shard_accessor(spec, R)


def finalize(agg, tier):
    c = agg["counters"]
    out = []
    for k in ("tier1_gu", "tier2_gu", "tier1_pgu", "tier2_pgu", "accessor_pixels", "passthrough_cases", "accessor_minus_inf_cells"):
        if c.get(k, 0) == 0:
            out.append(f"monitor {k} never evaluated")
    if c.get("irls_passes_10", 0) == 0:
        out.append("no non-converging (10-pass) reweighting case was observed")
    return out


def replay(case, R):
    S.warm(["ws2dgu", "ws2dpgu"])
    if "cube" in case:
        R.inconclusive_because("accessor witness: re-run the accessor shard (kernel-level witness is written separately)")
        return
    yy = np.asarray(case["y"], dtype=float)
    if case["variant"] == "ws2dgu":
        check_gu(R, yy, float(case["nodata"]), float(case["lam"]))
    else:
        check_pgu(R, yy, float(case["nodata"]), float(case["lam"]), float(case["p"]))
