"""C04 — V-curve selection is optimal on the grid and self-consistent.

O1 log10(lopt) is a midpoint of two consecutive grid entries.
O2 the reported midpoint minimises the V-curve: tier-1 replica (compiled ws2d, warm-start chain) and, when the
   criterion is not degenerate, the independent dense V-curve.
O3 band == the real fixed-lambda kernel (ws2dgu / ws2dpgu) at the reported lambda, bit for bit.
O4 accessor: sgrid == float32(log10(lopt)), variable names, per-pixel agreement with the kernels.
O5 grid choice of ws2doptvplc / ws2doptvplc_tyx from the lag-1 correlation (> 0.5: -2..1.0, else incl. NaN: 0..3.0).
"""

from __future__ import annotations

import math

import numpy as np

from .. import harness as H

from .. import smooth as S
from ..oracles import whittaker as W

PID = "C04"
RULE = (
    "case = (variant, series, gap mask, srange | lc, p); length 5..200, >= 2 valid cells, sranges with 3..40 uniformly "
    "spaced entries (any start/step) plus the accessor/test grids, p in (0,1) or none, lc in {-1,0,0.5,nextafter(0.5),1,"
    "NaN} U U[-1,1]. Non-trivial: criterion not degenerate (no residual/roughness sum at rounding-noise level) and "
    "V-curve ordinates not all equal. distinct = SHA-1 of (variant, y, nodata, grid, p)."
)
ASSUMPTIONS = [
    "tier 1 relies on ws2d (C01); ties: two candidates whose V ordinates differ by <= 1e-9 relative are interchangeable",
    "criterion-degenerate cases (exactly linear data, two valid cells, ...) are counted and only held to O1/O3",
    "curves leaving +-32766 are outside the claim for the band comparisons",
]
HARD_TIMEOUT_S = {"quick": 900, "thorough": 3600}


def grid_for_lc(lc):
    return S.GRID_HI if lc > 0.5 else S.GRID_LO


def find_mid(lopt, llas):
    mids = (llas[:-1] + llas[1:]) / 2
    ll = math.log10(lopt)
    k = int(np.argmin(np.abs(mids - ll)))
    return k, abs(mids[k] - ll), mids


def is_degenerate(v1, ycl, p):
    scale = max(1.0, float(np.max(np.abs(ycl))))
    noise = (1e-9 * scale) ** 2
    return bool((not np.all(np.isfinite(v1["v"]))) or np.any(v1["raw_fit"] < noise) or np.any(v1["raw_pen"] < noise) or (
        p is not None and v1["min_margin"] < 1e-9 * scale))


def check_vcurve(R, variant, yy, nodata, llas, p, lc=None, from_tyx=None):
    """One series through ws2doptv / ws2doptvp / ws2doptvplc (or a pixel result handed in by the tyx driver)."""
    prm = {"llas": llas, "p": p, "lc": lc}
    case = {"variant": variant, "y": yy, "nodata": nodata, "llas": llas, "p": p, "lc": lc}
    R.evaluation()
    if from_tyx is None:
        band, lopt = S.call(variant, yy, nodata, prm)
        band = np.array(band)
        lopt = float(lopt)
    else:
        band, lopt = from_tyx
    w = W.valid_eq(yy, nodata)
    if w.sum() < 2:
        R.count("below_threshold")
        return
    ycl = np.where(w > 0, yy.astype(float), 0.0)
    # ---- O1
    if not (lopt > 0 and np.isfinite(lopt)):
        R.violation("C04:midpoint", f"{variant}: reported lambda {lopt} is not positive/finite", case)
        return
    k, dist, mids = find_mid(lopt, llas)
    R.count("O1_midpoint")
    if dist > 1e-12 * max(1.0, abs(mids[k])):
        R.violation("C04:midpoint", f"{variant}: log10(lopt)={math.log10(lopt):.15g} is not a midpoint of consecutive grid entries (nearest {mids[k]:.15g}; grid {llas[0]:.3g}..{llas[-1]:.3g})", case)
        return
    # ---- O3 self-consistency with the real fixed-lambda kernels
    if p is None:
        ref, _ = S.call("ws2dgu", yy.astype(float), nodata, {"lam": lopt})
    else:
        ref, _ = S.call("ws2dpgu", yy.astype(float), nodata, {"lam": lopt, "p": p})
    R.count("O3_selfconsistent")
    if not np.array_equal(band, ref):
        z = S.ws2d_solver(ycl, lopt, w) if p is None else W.asym(ycl, lopt, w, p, S.ws2d_solver)["z"]
        if S.in_int16_claim(z):
            i = int(np.argmax(band != ref))
            R.violation("C04:band-vs-fixed", f"{variant}: band differs from the fixed-lambda smoother at the reported lambda {lopt:.6g} (cell {i}: {int(band[i])} vs {int(ref[i])})", case)
            return
        R.count("excluded_int16")
    # ---- O2 optimality
    v1 = W.vcurve(ycl, w, llas, S.ws2d_solver, p=p)
    scale = max(1.0, float(np.max(np.abs(ycl))))
    noise = (1e-9 * scale) ** 2
    degenerate = (not np.all(np.isfinite(v1["v"]))) or np.any(v1["raw_fit"] < noise) or np.any(v1["raw_pen"] < noise) or (
        p is not None and v1["min_margin"] < 1e-9 * scale)
    allsame = bool(np.ptp(v1["v"]) == 0) if np.all(np.isfinite(v1["v"])) else True
    R.case(not degenerate and not allsame, variant, yy, nodata, llas, p)
    if degenerate:
        R.count("criterion_degenerate")
        return
    vk = v1["v"][k]
    vmin = float(np.min(v1["v"]))
    R.count("O2_tier1")
    if not (vk <= vmin * (1 + 1e-9) + 1e-300):
        R.violation("C04:not-minimum", f"{variant}: reported midpoint {mids[k]:.3f} has V={vk:.9g} but the grid minimum is V={vmin:.9g} at {mids[int(np.argmin(v1['v']))]:.3f} (replica with the repository's own solver)", case)
        return
    if k != v1["k"]:
        R.count("tier1_tie_other_index")
    v2 = W.vcurve(ycl, w, llas, S.dense_solver, p=p)
    if np.all(np.isfinite(v2["v"])) and not (np.any(v2["raw_fit"] < noise) or np.any(v2["raw_pen"] < noise)) and not (
            p is not None and v2["min_margin"] < 1e-9 * scale):
        dis = float(np.max(np.abs(v2["v"] - v1["v"])))
        vmin2 = float(np.min(v2["v"]))
        R.count("O2_tier2")
        R.note_max("max_vcurve_disagreement_rel", dis / max(vmin2, 1e-300))
        if not (v2["v"][k] <= vmin2 + 10 * dis + 1e-9 * vmin2):
            R.violation("C04:not-minimum-dense", f"{variant}: reported midpoint {mids[k]:.3f} has V={v2['v'][k]:.9g}, independent V-curve minimum {vmin2:.9g} at {mids[int(np.argmin(v2['v']))]:.3f} (solver disagreement {dis:.2g})", case)
            return
    if R.want_sample():
        R.sample({"variant": variant, "y": yy[:14], "nodata": nodata, "grid": [float(llas[0]), float(llas[1] - llas[0]), int(llas.size)], "p": p, "lc": lc,
                  "log10_lopt": math.log10(lopt), "v": v1["v"][:8], "band": band[:14]})


def check_lc(R, y16, nodata, p, lc):
    """O5: the autocorrelation-driven grid."""
    band, lopt = S.call("ws2doptvplc", y16, nodata, {"p": p, "lc": lc})
    case = {"variant": "ws2doptvplc", "y": y16, "nodata": nodata, "p": p, "lc": lc}
    R.count("O5_grid_choice")
    R.count("lc_nan" if lc != lc else ("lc_hi" if lc > 0.5 else "lc_lo"))
    if (y16 != nodata).sum() < 2:
        return
    g = grid_for_lc(lc)
    eb, el = S.call("ws2doptvp", y16.astype(float), nodata, {"p": p, "llas": g})
    lopt, el = float(lopt), float(el)
    # the kernel builds its grid with its own arange: entries may differ from numpy's by an ulp, so lambdas are
    # compared to 1e-9 relative; the band is held to the fixed-lambda smoother at the *reported* lambda by O3.
    if not (lopt > 0 and np.isfinite(lopt)) or abs(lopt - el) > 1e-9 * el:
        key = "C04:lc-grid-nan" if lc != lc else "C04:lc-grid"
        if lopt > 0 and np.isfinite(lopt):
            # a V-curve tie between two candidates of the documented grid is not a wrong grid
            w = W.valid_eq(y16.astype(float), nodata)
            ycl = np.where(w > 0, y16.astype(float), 0.0)
            v1 = W.vcurve(ycl, w, g, S.ws2d_solver, p=p)
            k, dist, mids = find_mid(lopt, g)
            if dist <= 1e-9 and is_degenerate(v1, ycl, p):
                # the V-curve of (near-)exactly reproducible data is rounding noise: any midpoint of the right grid may win
                R.count("lc_criterion_degenerate")
                return True
            if dist <= 1e-9 and v1["v"][k] <= float(np.min(v1["v"])) * (1 + 1e-9):
                R.count("lc_selection_tie")
                return True
        other = S.GRID_LO if g is S.GRID_HI else S.GRID_HI
        ob, ol = S.call("ws2doptvp", y16.astype(float), nodata, {"p": p, "llas": other})
        which = "the other documented grid" if abs(float(ol) - lopt) <= 1e-9 * abs(float(ol)) else "neither documented grid"
        R.violation(key, f"ws2doptvplc(lc={lc}) reports lambda {lopt:.9g}; with grid {g[0]:.1f}..{g[-1]:.1f} ws2doptvp gives {el:.9g} (reported value matches {which})", case)
        return False
    return True


def shard_tyx(spec, R):
    rng = np.random.default_rng([spec["seed"], 4, 77, spec["sub"]])
    tyx = S.K("ws2doptvplc_tyx")
    ac = S.K("autocorr_1d")
    S.warm(["ws2doptvplc", "ws2doptvp", "ws2dpgu"])
    for it in range(spec["cases"]):
        if R.out_of_time():
            break
        nt, nr, nc = int(rng.choice([6, 12, 36, 72])), int(rng.integers(1, 5)), int(rng.integers(1, 5))
        nodata = int(rng.choice([-3000, 0, 32767]))
        cube = np.empty((nt, nr, nc), dtype=np.int16)
        for a in range(nr):
            for b in range(nc):
                kind = ["season", "noise", "walk", "smallrange"][int(rng.integers(0, 4))]
                y = S.gen_series(rng, nt, kind=kind)
                y = np.where(y == nodata, y + 1, y)
                m = S.gen_mask(rng, nt, min_valid=None if rng.random() < 0.1 else 2)
                cube[:, a, b] = np.where(m, nodata, y).astype(np.int16)
        p = float(rng.uniform(0.05, 0.95))
        zz, lopts = tyx(cube, p, nodata)
        R.evaluation()
        for a in range(nr):
            for b in range(nc):
                y16 = np.ascontiguousarray(cube[:, a, b])
                nvalid = int((y16 != nodata).sum())
                case = {"variant": "ws2doptvplc_tyx", "y": y16, "nodata": nodata, "p": p}
                if nvalid < 2:
                    R.count("tyx_below_threshold_pixels")
                    continue
                lc = float(ac(y16, nodata))
                eb, el = S.call("ws2doptvplc", y16, float(nodata), {"p": p, "lc": lc})
                R.count("tyx_pixels")
                R.count("tyx_lc_hi" if lc > 0.5 else "tyx_lc_lo")
                if float(el) != float(lopts[a, b]) or not np.array_equal(zz[:, a, b], eb):
                    R.violation("C04:tyx-vs-gufunc", f"ws2doptvplc_tyx pixel ({a},{b}) lambda {float(lopts[a, b]):.6g} != per-pixel kernel with its autocorrelation {lc:.4f}: {float(el):.6g}", case)
                    continue
                check_vcurve(R, "ws2doptvplc_tyx", y16.astype(float), float(nodata), grid_for_lc(lc), p, lc=lc, from_tyx=(np.array(zz[:, a, b]), float(lopts[a, b])))


def shard_accessor(spec, R):
    import pandas as pd
    import xarray as xr
    import hdc.algo  # noqa

    rng = np.random.default_rng([spec["seed"], 4, 9, spec["sub"]])
    S.warm(["ws2doptv", "ws2doptvp", "ws2doptvplc"])
    for it in range(spec["cases"]):
        if R.out_of_time():
            break
        ny, nx, nt = int(rng.integers(1, 4)), int(rng.integers(1, 4)), int(rng.choice([5, 9, 24, 60]))
        nodata = float(rng.choice([-3000, 0, 32767]))
        cube = np.empty((ny, nx, nt), dtype=np.int16)
        for a in range(ny):
            for b in range(nx):
                y = S.gen_series(rng, nt)
                y = np.where(y == nodata, y + 1, y)
                m = S.gen_mask(rng, nt, min_valid=None if rng.random() < 0.1 else 2)
                cube[a, b] = np.where(m, nodata, y)
        named = bool(H.pick(it, 2, 2))
        da = xr.DataArray(cube, dims=["y", "x", "time"], coords={"time": pd.date_range("2020-01-01", periods=nt, freq="10D")},
                          attrs={"nodata": nodata}, name="ndvi" if named else None)
        order = [("y", "x", "time"), ("time", "y", "x"), ("y", "time", "x")][H.pick(it, 1, 3)]  # every mode meets every order
        da = da.transpose(*order)
        R.count(f"accessor_mode{it % 3}_{'_'.join(order)}")
        mode = it % 3
        p = float([0.5, rng.uniform(0.05, 0.95), 0.01, 0.99, rng.uniform(0.05, 0.95)][it % 5])  # 0.5 is a value people special-case
        llas = S.gen_llas(rng)
        lcv = None
        # the grid as the caller may hold it: a float64 array, a slice of a longer table (strided), a list, float32
        sr_kind = H.pick(it, 3, 4)
        srange_arg = [llas, S.present(np.asarray(llas, dtype=np.float64), np.float64)[0], [float(v) for v in llas], llas][sr_kind]
        R.count(f"accessor_srange_{['array', 'view', 'list', 'array'][sr_kind]}")
        if mode == 0:
            ds = da.hdc.whit.whitsvc(nodata=nodata, srange=srange_arg)
            variant, pp = "ws2doptv", None
        elif mode == 1:
            ds = da.hdc.whit.whitsvc(nodata=nodata, srange=srange_arg, p=p)
            variant, pp = "ws2doptvp", p
        else:
            lcv = rng.choice([-1, 0, 0.5, 0.51, 1.0, np.nan, 0.3, 0.8], (ny, nx))
            lcd = xr.DataArray(lcv, dims=["y", "x"])
            ds = da.hdc.whit.whitsvc(nodata=nodata, lc=lcd, p=p)
            variant, pp = "ws2doptvplc", p
        R.evaluation()
        case = {"accessor": "whitsvc", "cube": cube, "nodata": nodata, "mode": mode, "p": pp, "llas": llas, "lc": lcv, "order": list(order)}
        bname = "ndvi" if named else "band"
        if set(ds.data_vars) != {bname, "sgrid"} or ds["sgrid"].dtype != np.float32 or ds[bname].dtype != np.int16:
            R.violation("C04:accessor-dataset", f"whitsvc returned variables {list(ds.data_vars)} (expected {bname!r} and 'sgrid'), sgrid dtype {ds['sgrid'].dtype}", case)
            continue
        out = ds[bname].transpose("y", "x", "time").values
        sg = ds["sgrid"].transpose("y", "x").values
        for a in range(ny):
            for b in range(nx):
                prm = {"llas": llas, "p": pp, "lc": None if lcv is None else float(lcv[a, b])}
                eb, el = S.call(variant, cube[a, b], nodata, prm)
                R.count("accessor_pixels")
                with np.errstate(divide="ignore"):
                    esg = np.float32(np.log10(float(el)))
                if not np.array_equal(out[a, b], eb) or not (sg[a, b] == esg or (np.isinf(esg) and sg[a, b] == esg)):
                    R.violation("C04:accessor", f"whitsvc pixel ({a},{b}): sgrid {sg[a, b]!r} vs float32(log10(lopt)) {esg!r}; band equal: {np.array_equal(out[a, b], eb)}", case)


def gen_case(rng, it):
    n = int(rng.choice([5, 6, 8, 12, 20, 36, 72, 120, 200])) if it % 3 else int(rng.integers(5, 201))
    kind = ["season", "noise", "walk", "steps", "spiky", "smallrange", "neg", "const", "linear"][it % 9]
    if kind == "const":
        # 0 is the constant people special-case (an all-dry pixel): every fit, residual and score is exactly 0.0
        y = np.full(n, float([0, rng.integers(-5000, 5000), 0, 1, -1, rng.integers(-5000, 5000)][(it // 12) % 6]))
    elif kind == "linear":
        y = (rng.integers(-20, 21) * np.arange(n) + rng.integers(-3000, 3000)).astype(float)
    else:
        y = S.gen_series(rng, n, kind=kind)
    nodata = float(rng.choice([-3000, -32768, 32767, 30000, 0]))
    y = np.where(y == nodata, y + 1, y)
    mask = S.gen_mask(rng, n, kind=None if rng.random() < 0.5 else "none", min_valid=2)
    return np.where(mask, nodata, y), nodata, kind


def plan(tier, seed):
    q = tier == "quick"
    specs = []
    for i in range(5 if q else 10):
        specs.append({"kind": "optv", "sub": i, "cases": 260 if q else 10000, "budget_s": 110 if q else 600})
    for i in range(5 if q else 10):
        specs.append({"kind": "optvp", "sub": i, "cases": 130 if q else 5000, "budget_s": 110 if q else 600})
    for i in range(3 if q else 6):
        specs.append({"kind": "lc", "sub": i, "cases": 120 if q else 5000, "budget_s": 110 if q else 600})
    specs.append({"kind": "tyx", "sub": 0, "cases": 14 if q else 400, "budget_s": 100 if q else 600})
    for i in range(2 if q else 8):
        specs.append({"kind": "accessor", "sub": i, "cases": 45 if q else 600, "budget_s": 110 if q else 600})
    return specs


def run_shard(spec, R):
    kind = spec["kind"]
    rng = np.random.default_rng([spec["seed"], 4, {"optv": 1, "optvp": 2, "lc": 3, "tyx": 4, "accessor": 5}[kind], spec["sub"]])
    if kind == "tyx":
        return shard_tyx(spec, R)
    if kind == "accessor":
        return shard_accessor(spec, R)
    if kind == "optv":
        S.warm(["ws2doptv", "ws2dgu"])
    elif kind == "optvp":
        S.warm(["ws2doptvp", "ws2dpgu"])
    else:
        S.warm(["ws2doptvplc", "ws2doptvp", "ws2dpgu"])
    for it in range(spec["cases"]):
        if R.out_of_time():
            R.count("stopped_on_budget")
            break
        yy, nodata, ykind = gen_case(rng, it)
        R.count("series_" + ykind)
        if kind == "optv":
            check_vcurve(R, "ws2doptv", yy, nodata, S.gen_llas(rng), None)
        elif kind == "optvp":
            p = float(rng.choice([0.1, 0.5, 0.9, rng.uniform(0.02, 0.98)]))
            check_vcurve(R, "ws2doptvp", yy, nodata, S.gen_llas(rng), p)
        else:
            p = float(rng.choice([0.5, 0.9, rng.uniform(0.05, 0.95)]))
            lc = float([-1.0, 0.0, 0.5, float(np.nextafter(0.5, 1)), 1.0, float("nan"), rng.uniform(-1, 1), rng.uniform(0.4, 0.6)][it % 8])
            y16 = yy.astype(np.int16)
            if check_lc(R, y16, nodata, p, lc):
                check_vcurve(R, "ws2doptvplc", y16.astype(float), nodata, grid_for_lc(lc), p, lc=lc)


def finalize(agg, tier):
    c = agg["counters"]
    out = []
    for k in ("O1_midpoint", "O2_tier1", "O2_tier2", "O3_selfconsistent", "O5_grid_choice", "lc_nan", "lc_hi", "lc_lo", "tyx_pixels", "tyx_lc_hi", "tyx_lc_lo", "accessor_pixels"):
        if c.get(k, 0) == 0:
            out.append(f"monitor/class {k} never observed")
    return out


def replay(case, R):
    v = case.get("variant")
    if v is None:
        R.inconclusive_because("accessor witness: re-run the accessor shard")
        return
    S.warm(["ws2doptv", "ws2doptvp", "ws2doptvplc", "ws2dgu", "ws2dpgu"])
    y = np.asarray(case["y"])
    if v in ("ws2doptvplc", "ws2doptvplc_tyx") and case.get("llas") is None:
        lc = case.get("lc")
        if lc is None:
            lc = float(S.K("autocorr_1d")(y.astype(np.int16), int(case["nodata"])))
        lc = float(lc)
        if check_lc(R, y.astype(np.int16), float(case["nodata"]), float(case["p"]), lc):
            check_vcurve(R, "ws2doptvplc", y.astype(float), float(case["nodata"]), grid_for_lc(lc), float(case["p"]), lc=lc)
        return
    vv = "ws2doptvplc" if v == "ws2doptvplc_tyx" else v
    check_vcurve(R, vv, y.astype(float), float(case["nodata"]), np.asarray(case["llas"], dtype=float), None if case["p"] is None else float(case["p"]), lc=case.get("lc"))
