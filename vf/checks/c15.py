"""C15 — lag-1 autocorrelation is a Pearson correlation with mean-filled gaps.

Reference model straight from the definition (fill the missing cells of x[:-1] and x[1:] with the mean of the valid
cells of that vector, Pearson r; 0 without a valid pair or without variance), in float64 and, for integer data, in
exact rationals.  Boundary monitors: range, affine invariance, int/nodata vs float/NaN encodings, both layouts, accessor.
"""

from __future__ import annotations

import importlib
import math
from fractions import Fraction

import numpy as np

PID = "C15"
RULE = (
    "case = one series (int16 with nodata or float with NaN) of length 3..900; gap patterns random / contiguous outages up "
    "to 90 % / leading / trailing / none; constant, two-valued and ordinary series; positive affine maps within int16. "
    "Non-trivial: >= 1 gap or n <= 5. distinct = SHA-1 of (encoding, series)."
)
ASSUMPTIONS = [
    "tolerance 1e-9 on the integer path (sums are exact), 1e-9 + 64*eps*max|x|^2*n/SSD on the float path (single-pass sums cancel when the mean dominates the variance)",
    "series whose filled vectors have a variance below the code's documented cut-off scale (no variance => 0) are generated only as exactly constant vectors",
    "raster outputs (autocorr / autocorr_tyx / accessor) are float32: compared at 2 ulp32",
]
HARD_TIMEOUT_S = {"quick": 900, "thorough": 2400}


def ac():
    return importlib.import_module("hdc.algo.ops.autocorr")


def reference(x, missing, exact=False):
    """x: 1-d numbers, missing: bool mask.  Returns (r, info)."""
    X, Y = x[:-1], x[1:]
    mX, mY = missing[:-1], missing[1:]
    if not np.any(~mX & ~mY):
        return 0.0, {"no_pair": True}
    if exact:
        Xv = [Fraction(int(v)) for v in X[~mX]]
        Yv = [Fraction(int(v)) for v in Y[~mY]]
        mx, my = sum(Xv) / len(Xv), sum(Yv) / len(Yv)
        Xf = [Fraction(int(v)) if not m else mx for v, m in zip(X, mX)]
        Yf = [Fraction(int(v)) if not m else my for v, m in zip(Y, mY)]
        sx = sum((a - mx) ** 2 for a in Xf)
        sy = sum((b - my) ** 2 for b in Yf)
        if sx == 0 or sy == 0:
            return 0.0, {"no_variance": True}
        c = sum((a - mx) * (b - my) for a, b in zip(Xf, Yf))
        return float(c) / math.sqrt(float(sx) * float(sy)), {"ssd": (float(sx), float(sy))}
    Xf = X.astype(np.float64).copy()
    Yf = Y.astype(np.float64).copy()
    Xf[mX] = Xf[~mX].mean()
    Yf[mY] = Yf[~mY].mean()
    dx, dy = Xf - Xf.mean(), Yf - Yf.mean()
    sx, sy = float(np.sum(dx * dx)), float(np.sum(dy * dy))
    if np.ptp(Xf[~mX]) == 0 or np.ptp(Yf[~mY]) == 0:
        return 0.0, {"no_variance": True}
    return float(np.sum(dx * dy) / math.sqrt(sx * sy)), {"ssd": (sx, sy)}


def gen_series(rng, it):
    n = int(rng.choice([3, 4, 5, 8, 12, 36, 120, 365, 900])) if it % 3 else int(rng.integers(3, 901))
    kind = ["ar", "noise", "season", "const", "twoval", "ramp", "lowamp"][it % 7]
    t = np.arange(n)
    amp = float(rng.choice([5, 100, 3000]))
    if kind == "ar":
        e = rng.normal(0, 1, n)
        x = np.zeros(n)
        phi = rng.uniform(-0.95, 0.95)
        for i in range(1, n):
            x[i] = phi * x[i - 1] + e[i]
        x = x * amp / 3
    elif kind == "noise":
        x = rng.normal(0, amp / 3, n)
    elif kind == "season":
        x = amp * np.sin(2 * np.pi * t / rng.choice([12, 36, 73])) + rng.normal(0, amp / 10, n)
    elif kind == "const":
        x = np.full(n, float(rng.integers(-3000, 3000)))
    elif kind == "twoval":
        x = rng.choice([float(rng.integers(-100, 100)), float(rng.integers(200, 900))], n)
    elif kind == "lowamp":  # small signal on a large offset (std/rms ~ 1e-4): still a perfectly defined correlation
        x = rng.integers(0, int(rng.choice([2, 6, 12])), n).astype(float) + np.cumsum(rng.integers(-1, 2, n)).clip(-3, 3) + float(rng.choice([8990, -8990, 6000]))
    else:
        x = t * rng.uniform(-5, 5) + rng.normal(0, 1, n)
    x = np.clip(np.round(x + (0 if kind == "lowamp" else rng.integers(-2000, 2000))), -9000, 9000)
    gk = ["none", "random", "outage", "leading", "trailing", "heavy"][int(rng.integers(0, 6))]
    m = np.zeros(n, dtype=bool)
    if gk == "random":
        m = rng.random(n) < rng.uniform(0.02, 0.4)
    elif gk == "outage":
        L = int(n * rng.uniform(0.1, 0.9))
        a = int(rng.integers(0, n - L + 1))
        m[a:a + L] = True
    elif gk == "leading":
        m[: int(rng.integers(1, n))] = True
    elif gk == "trailing":
        m[n - int(rng.integers(1, n)):] = True
    elif gk == "heavy":
        m = rng.random(n) < rng.uniform(0.6, 0.95)
    return x, m, kind, gk


def pick_nodata(valid, salt=0):
    """A placeholder that no valid cell holds, chosen deterministically from the data among hostile values (0 is falsy,
    -1 / 1 sit inside the data range, the int16 extremes, the customary -9999)."""
    import zlib

    cands = [0, -9999, -1, 32767, -32768, 1, 255]
    v = np.asarray(valid, dtype=np.float64)
    h = (zlib.crc32(v.tobytes()) + salt) % len(cands)
    for j in range(len(cands)):
        c = cands[(h + j) % len(cands)]
        if not np.any(v == c):
            return c
    return -9999


def check_series(R, x, m, exact=False, label=""):
    a = ac()
    n = x.size
    nodata = pick_nodata(x[~m])
    R.count(f"nodata_{nodata}")
    xi = np.where(m, nodata, x).astype(np.int16)
    xf = np.where(m, np.nan, x).astype(np.float64)
    case = {"x": x, "missing": m}
    R.evaluation()
    R.case(bool(m.any() or n <= 5), "series", x, m)
    r_ref, info = reference(x, m, exact=exact)
    R.count("exact_rational_references" if exact else "float_references")
    if info.get("no_pair"):
        R.count("no_valid_pair")
    if info.get("no_variance"):
        R.count("no_variance")
    got_i = float(a.autocorr_1d(xi, nodata))
    got_f = float(a.autocorr_1d(xf))
    got_f32 = float(a.autocorr_1d(xf.astype(np.float32)))
    if not (abs(got_i) <= 1 + 1e-12 and abs(got_f) <= 1 + 1e-12 and abs(got_f32) <= 1 + 1e-12):
        R.violation("C15:range", f"|r| > 1: int/nodata path {got_i!r}, float/NaN path {got_f!r} ({int(m.sum())} of {n} cells missing)", case)
        return
    if not (abs(got_i - r_ref) <= 1e-9):  # NaN-safe
        key = "C15:gap-formula" if m.any() else "C15:value"
        R.violation(key, f"autocorr_1d(int16, nodata) = {got_i!r}, Pearson r of the mean-filled vectors = {r_ref!r} (n={n}, missing={int(m.sum())})", case)
        return
    ftol = 1e-9
    if "ssd" in info:
        ftol += 64 * 2.0 ** -53 * float(np.max(np.abs(x)) ** 2) * n / max(min(info["ssd"]), 1e-300)
    R.note_max("max_float_tolerance_used", ftol)
    if not (abs(got_f - r_ref) <= ftol and abs(got_f32 - r_ref) <= ftol):
        key = "C15:gap-formula" if m.any() else "C15:value"
        R.violation(key, f"autocorr_1d(float, NaN) = {got_f!r} / float32 {got_f32!r}, reference {r_ref!r} (tol {ftol:.2g})", case)
        return
    if not (abs(got_i - got_f) <= ftol):
        R.violation("C15:encodings", f"int/nodata {got_i!r} and float/NaN {got_f!r} encodings of the same series disagree", case)
        return
    # positive affine map inside int16
    amax = max(1, int(30000 // (np.max(np.abs(x)) + 1)))
    k = int(min(amax, 3))
    b = int(np.clip(500, -(32000 - k * int(np.max(np.abs(x)))), 32000 - k * int(np.max(np.abs(x)))))
    xa = np.where(m, nodata, k * x + b)
    if not np.any((xa == nodata) & ~m):
        got_a = float(a.autocorr_1d(xa.astype(np.int16), nodata))
        R.count("affine_pairs")
        if not (abs(got_a - got_i) <= 1e-9):
            R.violation("C15:affine", f"r changes under the positive affine map {k}*x+{b}: {got_i!r} -> {got_a!r}", case)
            return
    # the largest offset int16 allows (affine invariance must not depend on the magnitude of the values)
    top = 32000 - int(np.max(x))
    bot = -32000 - int(np.min(x))
    for b2 in (top, bot):
        xb = np.where(m, nodata, x + b2)
        if np.any((xb == nodata) & ~m):
            continue
        got_b = float(a.autocorr_1d(xb.astype(np.int16), nodata))
        got_bf = float(a.autocorr_1d(np.where(m, np.nan, x + b2).astype(np.float64)))
        R.count("offset_pairs")
        if not (abs(got_b - got_i) <= 1e-9 and abs(got_bf - got_f) <= max(ftol, 64 * 2.0 ** -53 * 32000.0 ** 2 * n / max(min(info.get("ssd", (1e300, 1e300))), 1e-300))):
            R.violation("C15:affine", f"r changes when {b2:+d} is added to all valid cells: int path {got_i!r} -> {got_b!r}, float path {got_f!r} -> {got_bf!r}", case)
            return
    if R.want_sample() and m.any():
        R.sample({"x": xi[:16], "nodata": nodata, "r": got_i, "reference": r_ref, "label": label})


def shard_series(spec, R):
    rng = np.random.default_rng([spec["seed"], 15, 1, spec["sub"]])
    for it in range(spec["cases"]):
        if R.out_of_time():
            break
        x, m, kind, gk = gen_series(rng, it)
        R.count("series_" + kind)
        R.count("gaps_" + gk)
        check_series(R, x, m, exact=(spec["exact_every"] and it % spec["exact_every"] == 0 and x.size <= 400), label=f"{kind}/{gk}")


def shard_raster(spec, R):
    import pandas as pd
    import xarray as xr
    import hdc.algo  # noqa
    import warnings

    a = ac()
    rng = np.random.default_rng([spec["seed"], 15, 2, spec["sub"]])
    for it in range(spec["cases"]):
        if R.out_of_time():
            break
        ny, nx = int(rng.integers(1, 4)), int(rng.integers(1, 4))
        nt = int(rng.choice([3, 8, 36, 120]))
        cube = np.empty((ny, nx, nt))
        miss = np.zeros((ny, nx, nt), dtype=bool)
        for p in range(ny):
            for q in range(nx):
                x, m, _, _ = gen_series(rng, int(rng.integers(0, 1000)))
                idx = np.resize(np.arange(x.size), nt)
                cube[p, q], miss[p, q] = x[idx], m[idx]
        ref = np.array([[reference(cube[p, q], miss[p, q])[0] for q in range(nx)] for p in range(ny)])
        nodata = pick_nodata(cube[~miss], salt=it)
        R.count(f"raster_nodata_{nodata}")
        ci = np.where(miss, nodata, cube).astype(np.int16)
        cf = np.where(miss, np.nan, cube).astype(np.float32)
        R.evaluation()
        R.case(True, "raster", cube, miss)
        outs = {
            "autocorr(int)": a.autocorr(ci, nodata),
            "autocorr_tyx(int)": a.autocorr_tyx(np.ascontiguousarray(ci.transpose(2, 0, 1)), nodata),
            "autocorr(float)": a.autocorr(cf),
            "autocorr_tyx(float)": a.autocorr_tyx(np.ascontiguousarray(cf.transpose(2, 0, 1))),
        }
        time = pd.date_range("2000-01-01", periods=nt, freq="10D")
        with warnings.catch_warnings():
            warnings.simplefilter("ignore")
            da_i = xr.DataArray(ci, dims=["y", "x", "time"], coords={"time": time, "y": np.arange(ny), "x": np.arange(nx)}, attrs={"nodata": nodata})
            outs["accessor (y,x,time) int"] = da_i.hdc.algo.autocorr().values
            outs["accessor (time,y,x) int"] = da_i.transpose("time", "y", "x").hdc.algo.autocorr().values
            da_f = xr.DataArray(cf, dims=["y", "x", "time"], coords={"time": time})
            outs["accessor (y,x,time) float"] = da_f.hdc.algo.autocorr().values
            outs["accessor (time,y,x) float"] = da_f.transpose("time", "y", "x").hdc.algo.autocorr().values
        case = {"cube": cube, "missing": miss}
        for name, o in outs.items():
            R.count("raster_outputs")
            o = np.asarray(o)
            if o.dtype != np.float32 or o.shape != (ny, nx):
                R.violation("C15:raster-shape", f"{name}: dtype {o.dtype}, shape {o.shape}", case)
                break
            tol = 2 * np.spacing(np.abs(ref).astype(np.float32)).astype(np.float64) + 1e-6
            if np.any(~(np.abs(o.astype(np.float64) - ref) <= tol)):  # NaN-safe
                i = np.argwhere(~(np.abs(o.astype(np.float64) - ref) <= tol))[0]
                key = "C15:gap-formula" if miss[tuple(i)].any() else "C15:value"
                R.violation(key, f"{name}: pixel {i.tolist()} = {float(o[tuple(i)])!r}, reference {ref[tuple(i)]!r}", {"x": cube[tuple(i)], "missing": miss[tuple(i)]})
                break


def plan(tier, seed):
    q = tier == "quick"
    specs = [{"kind": "series", "sub": i, "cases": 700 if q else 40000, "exact_every": 10 if q else 5, "budget_s": 100 if q else 600} for i in range(12 if q else 32)]
    specs += [{"kind": "raster", "sub": i, "cases": 40 if q else 2000, "budget_s": 100 if q else 600} for i in range(4 if q else 8)]
    return specs


def run_shard(spec, R):
    {"series": shard_series, "raster": shard_raster}[spec["kind"]](spec, R)


def finalize(agg, tier):
    c = agg["counters"]
    out = []
    for k in ("float_references", "exact_rational_references", "affine_pairs", "offset_pairs", "series_lowamp", "raster_outputs", "no_valid_pair", "no_variance", "gaps_outage", "gaps_heavy", "gaps_leading", "gaps_trailing", "gaps_random"):
        if c.get(k, 0) == 0:
            out.append(f"monitor/class {k} never observed")
    return out


def replay(case, R):
    if "cube" in case:
        R.inconclusive_because("raster witness: the failing pixel is written as its own witness")
        return
    check_series(R, np.asarray(case["x"], dtype=float), np.asarray(case["missing"], dtype=bool), exact=np.asarray(case["x"]).size <= 400)
