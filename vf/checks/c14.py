"""C14 — no kernel reads or writes outside its arrays on in-contract input; every output element is written.

* sanitizer shards run with NUMBA_BOUNDSCHECK=1: Numba re-generates every kernel with a check on each index expression
  and raises IndexError; every one of the 35 programs is driven with minimum / edge / random in-contract inputs;
* poison shards (normal compile): gufunc outputs are pre-filled with two different poison patterns; any element the
  kernel does not write makes the two runs differ; njit results must be equal across repeated calls;
* guard shards (thorough): the interpreted code object runs on index-recording arrays: output write coverage must be
  100 %, true out-of-range indices are violations, negative (wrap-around) indices are reported as evidence.
"""

from __future__ import annotations

import os
import warnings

import numpy as np

from .. import programs as PR
from .. import shim

PID = "C14"
RULE = (
    "case = (program, dtype, size class, input); size classes: min (shortest in-contract length, single pixel, single "
    "group/zone, window 1, 2-entry srange, 4-day template), edge (lengths 2..6, all-missing / one valid / two valid series, "
    "window == length, k == n groups) and random in-contract inputs. Non-trivial: min/edge sized or carrying missing cells. "
    "distinct = SHA-1 of (program, dtype, arguments)."
)
ASSUMPTIONS = [
    "NUMBA_BOUNDSCHECK=1 checks every array index expression of nopython code (Numba feature); it accepts negative wrap-around indices, which are valid Numba indexing - those are recorded by the guard shards instead",
    "poison patterns 0x55.. / 0xAA..: an unwritten output element differs between the two runs",
    "exceptions other than IndexError on in-contract input are counted (other properties own them), not verdicts of C14",
]
HARD_TIMEOUT_S = {"quick": 900, "thorough": 3600}

GROUPS = [
    ["ws2d", "_ws2doptvp", "brentq", "gammafit"], ["_ws2dwcvp", "gammastd"], ["ws2doptvplc_tyx"], ["gammastd_yxt", "mk_score", "mk_z_score", "mk_p_value"],
    ["mk_variance_s", "autocorr_1d_float", "autocorr_1d_int"], ["mk_sens_slope", "mann_kendall_trend_yxt", "autocorr_1d"],
    ["mann_kendall_trend_1d", "autocorr", "autocorr_tyx", "do_mean"], ["ws2dgu", "ws2dpgu"], ["ws2doptv", "ws2doptvp"], ["ws2doptvplc", "lroo", "tinterpolate"],
    ["ws2dwcv"], ["ws2dwcvp"], ["gammastd_grp", "rolling_sum"], ["_mann_kendall_trend_gu_nd"], ["_mann_kendall_trend_gu", "mean_grp"],
]
assert sorted(sum(GROUPS, [])) == sorted(p.name for p in PR.PROGRAMS)


def same(a, b):
    if isinstance(a, tuple):
        return isinstance(b, tuple) and len(a) == len(b) and all(same(x, y) for x, y in zip(a, b))
    a, b = np.asarray(a), np.asarray(b)
    if a.shape != b.shape or a.dtype != b.dtype:
        return False
    if a.dtype.kind == "f":
        return bool(np.array_equal(a, b, equal_nan=True))
    return bool(np.array_equal(a, b))


def shard_bounds(spec, R):
    if os.environ.get("NUMBA_BOUNDSCHECK") != "1":
        R.inconclusive_because("NUMBA_BOUNDSCHECK=1 not set in the sanitizer shard")
        return
    import numba

    R.note("numba_boundscheck_config", int(numba.config.BOUNDSCHECK or 0))
    if not numba.config.BOUNDSCHECK:
        R.inconclusive_because("numba.config.BOUNDSCHECK is off although the environment variable is set")
        return
    rng = np.random.default_rng([spec["seed"], 14, 1, spec["group"]])
    # self-test of the sanitizer: a deliberately out-of-range access must be reported
    @numba.njit
    def _probe(a, i):
        return a[i]

    try:
        _probe(np.zeros(3), 5)
        R.inconclusive_because("sanitizer self-test: out-of-range read was not reported")
        return
    except IndexError:
        R.count("sanitizer_selftest_fired")
    for name in GROUPS[spec["group"]]:
        p = PR.BY_NAME[name]
        for dtype in p.dtypes:
            for cls, reps in (("min", spec["reps_min"]), ("edge", spec["reps_edge"]), ("random", spec["reps_random"])):
                for _ in range(reps):
                    args = p.gen(rng, cls, dtype)
                    R.evaluation()
                    R.case(cls != "random" or any(isinstance(a, np.ndarray) and a.size and (np.any(a == -3000) or np.any(a == -9999)) for a in args), name, dtype, *[a for a in args if not isinstance(a, type)])
                    R.count(f"checked_calls_{name}")
                    try:
                        with warnings.catch_warnings():
                            warnings.simplefilter("ignore")
                            p.get()(*args)
                    except IndexError as e:
                        shapes = [getattr(a, "shape", a) for a in args]
                        R.violation(f"C14:index-error:{name}", f"{name}({dtype}, {cls}) raises IndexError under bounds checking: {str(e)[:120]}; argument shapes {shapes}", {"program": name, "dtype": dtype, "cls": cls, "args": [a if not isinstance(a, type) else a.__name__ for a in args]})
                    except Exception as e:
                        R.count(f"other_exception_{type(e).__name__}")
        R.count("programs_under_boundscheck")
    R.sample({"programs": GROUPS[spec["group"]], "NUMBA_BOUNDSCHECK": 1})


def shard_poison(spec, R):
    rng = np.random.default_rng([spec["seed"], 14, 2, spec["group"]])
    for name in GROUPS[spec["group"]]:
        p = PR.BY_NAME[name]
        f = p.get()
        for dtype in p.dtypes:
            for cls, reps in (("min", spec["reps_min"]), ("edge", spec["reps_edge"]), ("random", spec["reps_random"])):
                for _ in range(reps):
                    args = p.gen(rng, cls, dtype)
                    case = {"program": name, "dtype": dtype, "cls": cls, "args": [a if not isinstance(a, type) else a.__name__ for a in args]}
                    R.evaluation()
                    R.case(True, "poison", name, dtype, *[a for a in args if not isinstance(a, type)])
                    pristine = [a.tobytes() if isinstance(a, np.ndarray) else None for a in args]
                    try:
                        with warnings.catch_warnings():
                            warnings.simplefilter("ignore")
                            ref = f(*args)
                            # repeated calls can only be deterministic when the arguments survive a call untouched
                            R.count("input_unmodified_checks")
                            changed = [j for j, (a, b) in enumerate(zip(args, pristine)) if b is not None and a.tobytes() != b]
                            if changed:
                                R.violation(f"C14:input-mutated:{name}", f"{name}({dtype}, {cls}): the call modified its input argument(s) {changed} in place", case)
                                continue
                            if p.kind == "gufunc":
                                refs = ref if isinstance(ref, tuple) else (ref,)
                                outs = []
                                for pat in (0x55, 0xAA):
                                    bufs = []
                                    for r in refs:
                                        r = np.asarray(r)
                                        b = np.frombuffer(bytes([pat]) * max(1, r.size * r.dtype.itemsize), dtype=r.dtype)[: max(1, r.size)].reshape(r.shape).copy()
                                        bufs.append(b)
                                    got = f(*args, *bufs)
                                    outs.append(tuple(np.asarray(b) for b in bufs))
                                R.count("poison_pairs")
                                if not same(outs[0], outs[1]) or not same(outs[0], tuple(np.asarray(r) for r in refs)):
                                    R.violation(f"C14:unwritten-output:{name}", f"{name}({dtype}, {cls}): output buffers pre-filled with different poison differ after the call (an element is never written)", case)
                            else:
                                again = f(*args)
                                R.count("repeat_pairs")
                                if not same(ref, again):
                                    R.violation(f"C14:nondeterministic:{name}", f"{name}({dtype}, {cls}): two calls on the same input return different results", case)
                    except Exception as e:
                        R.count(f"other_exception_{type(e).__name__}")
        R.count("programs_poisoned")


class Tracked(np.ndarray):
    """Records integer indices and which cells were assigned (views share the written-mask)."""

    LOG = None

    def __new__(cls, arr, label="a"):
        o = np.asarray(arr).view(cls)
        o._label = label
        o._mask = np.zeros(o.shape, dtype=bool)
        return o

    def __array_finalize__(self, obj):
        self._label = getattr(obj, "_label", "?")
        self._mask = None

    def _note(self, idx):
        log = Tracked.LOG
        if log is None:
            return
        tup = idx if isinstance(idx, tuple) else (idx,)
        for ax, i in enumerate(tup):
            if isinstance(i, (int, np.integer)) and not isinstance(i, (bool, np.bool_)) and ax < self.ndim:
                i = int(i)
                n = self.shape[ax]
                if i < 0:
                    log["negative"] += 1
                    log["neg_sites"].add((self._label, i, n))
                # a truly out-of-range index raises IndexError in NumPy itself (and ends legacy iteration): nothing to record here

    def __getitem__(self, idx):
        self._note(idx)
        r = super().__getitem__(idx)
        if isinstance(r, Tracked) and self._mask is not None:
            try:
                r._mask = self._mask[idx]
                if not isinstance(r._mask, np.ndarray) or r._mask.shape != r.shape:
                    r._mask = None
            except Exception:
                r._mask = None
        return r

    def __setitem__(self, idx, val):
        self._note(idx)
        if self._mask is not None:
            self._mask[idx] = True
        super().__setitem__(idx, val)


def shard_guard(spec, R):
    rng = np.random.default_rng([spec["seed"], 14, 3, spec["group"]])
    for name in GROUPS[spec["group"]]:
        p = PR.BY_NAME[name]
        if p.kind != "gufunc":
            continue
        counter = [0]

        def mk(fn):
            def wrapped(*a, **k):
                counter[0] += 1
                return Tracked(fn(*a, **k), f"local{counter[0]}")
            return wrapped

        ov = {n: mk(getattr(np, n)) for n in ("zeros", "ones", "full", "full_like", "zeros_like", "empty")}
        f = shim.interp(p.get(), extra_globals=None)
        for gname, gval in list(f.__globals__.items()):
            if isinstance(gval, shim.NpProxy):
                f.__globals__[gname] = shim.NpProxy(ov)
        for dtype in p.dtypes:
            for cls, reps in (("min", 2), ("edge", spec["reps_edge"]), ("random", spec["reps_random"])):
                for _ in range(reps):
                    args = p.gen(rng, cls, dtype)
                    outs = [Tracked(o, f"out{i}") for i, o in enumerate(p.outs(args))]
                    if name == "lroo":
                        outs = [Tracked(np.zeros(1, dtype=np.asarray(p.get()(args[0])).dtype), "out0")]
                    targs = [Tracked(a, f"in{i}") if isinstance(a, np.ndarray) else a for i, a in enumerate(args)]
                    Tracked.LOG = {"negative": 0, "neg_sites": set(), "oob": []}
                    case = {"program": name, "dtype": dtype, "cls": cls, "args": args}
                    R.evaluation()
                    try:
                        with warnings.catch_warnings(), np.errstate(all="ignore"):
                            warnings.simplefilter("ignore")
                            f(*targs, *outs)
                    except IndexError as e:
                        R.violation(f"C14:index-error:{name}", f"{name}({dtype}, {cls}) interpreted: IndexError {str(e)[:100]}", case)
                        continue
                    except (ValueError, ZeroDivisionError, TypeError, OverflowError) as e:
                        # e.g. math domain error of log(0), or NumPy refusing to store a Python int beyond the output's
                        # integer range (curve leaving int16: outside every claim; nopython code wraps): C13's business
                        R.count(f"interpreter_only_exception_{type(e).__name__}")
                        continue
                    finally:
                        log, Tracked.LOG = Tracked.LOG, None
                    R.count("guarded_runs")
                    R.count("negative_index_events", log["negative"])
                    if log["neg_sites"]:
                        R.note("negative_index_sites", {name: sorted({f"{lab}[{i}] of {n}" for lab, i, n in log["neg_sites"]})[:6]})
                    for o in outs:
                        if o._mask is not None and not o._mask.all():
                            R.violation(f"C14:unwritten-output:{name}", f"{name}({dtype}, {cls}): output {o._label} cells {np.flatnonzero(~o._mask.ravel())[:5].tolist()} are never assigned", case)
                            break
        R.count("programs_guarded")


def plan(tier, seed):
    q = tier == "quick"
    specs = []
    for g in range(len(GROUPS)):
        specs.append({"kind": "bounds", "group": g, "env": {"NUMBA_BOUNDSCHECK": "1"}, "reps_min": 3, "reps_edge": 12 if q else 300, "reps_random": 12 if q else 600})
    for g in range(len(GROUPS)):
        specs.append({"kind": "poison", "group": g, "reps_min": 2, "reps_edge": 8 if q else 200, "reps_random": 8 if q else 300})
    for g in range(len(GROUPS)):
        if any(PR.BY_NAME[n].kind == "gufunc" for n in GROUPS[g]):
            specs.append({"kind": "guard", "group": g, "reps_edge": 3 if q else 60, "reps_random": 2 if q else 60})
    return specs


def run_shard(spec, R):
    {"bounds": shard_bounds, "poison": shard_poison, "guard": shard_guard}[spec["kind"]](spec, R)


def finalize(agg, tier):
    c = agg["counters"]
    out = []
    if c.get("programs_under_boundscheck", 0) != 35:
        out.append(f"{c.get('programs_under_boundscheck', 0)} of 35 programs ran under NUMBA_BOUNDSCHECK")
    if c.get("programs_poisoned", 0) != 35:
        out.append(f"{c.get('programs_poisoned', 0)} of 35 programs ran the poison/repeat monitor")
    if c.get("programs_guarded", 0) != 14:
        out.append(f"{c.get('programs_guarded', 0)} of 14 gufunc kernels ran on guard arrays")
    if c.get("sanitizer_selftest_fired", 0) == 0:
        out.append("sanitizer self-test never fired")
    for k in ("poison_pairs", "repeat_pairs", "guarded_runs"):
        if c.get(k, 0) == 0:
            out.append(f"monitor {k} never evaluated")
    return out


def replay(case, R):
    import subprocess
    import sys
    import json
    import tempfile
    from .. import harness as H

    # re-run the recorded call under the sanitizer in a fresh interpreter
    name = case["program"]
    code = (
        "import sys, json, numpy as np\n"
        f"sys.path[:0]=[{str(H.REPO)!r},{str(H.ROOT)!r},{str(H.DEPS)!r}]\n"
        "from vf import programs as PR, harness as H\n"
        "case=H.unjson(json.load(open(sys.argv[1])))\n"
        "p=PR.BY_NAME[case['program']]\n"
        "args=[getattr(np,a) if isinstance(a,str) and a in ('float32','float64') else a for a in case['args']]\n"
        "try:\n    p.get()(*args); print('OK')\nexcept IndexError as e:\n    print('INDEXERROR', e)\n"
    )
    with tempfile.NamedTemporaryFile("w", suffix=".json", delete=False) as fh:
        json.dump(H.jsonable(case), fh)
        path = fh.name
    env = dict(os.environ, NUMBA_BOUNDSCHECK="1")
    r = subprocess.run([sys.executable, "-c", code, path], capture_output=True, text=True, env=env, timeout=600)
    os.unlink(path)
    R.evaluation()
    if "INDEXERROR" in r.stdout:
        R.violation(f"C14:index-error:{name}", f"{name} raises IndexError under bounds checking: {r.stdout.strip()[:200]}", case)
    elif "OK" not in r.stdout:
        R.inconclusive_because(f"replay subprocess failed: {r.stderr[-300:]}")
