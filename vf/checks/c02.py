"""C02 — missing observations carry zero weight in every smoother.

Pair monitor: one (series, missing mask) is presented to the real kernels under several placeholder encodings
(nodata below / inside / above the data range, and NaN / +inf / -inf / mixtures for the fixed-lambda and GCV kernels);
band (every cell) and lopt must be identical.  Gap cells must carry the fitted curve (real fixed-lambda kernel at the
reported lambda, itself held to the dense oracle).  Valid-count thresholds: <= 1 (<= 4 GCV) valid => passthrough,
lopt 0; exactly one more => smoothed.
"""

from __future__ import annotations

import numpy as np

from .. import smooth as S
from ..oracles import whittaker as W

PID = "C02"
RULE = (
    "case = (variant, series, missing mask, parameters) with all its placeholder encodings; masks isolated/runs/leading/"
    "trailing/all-but-k/heavy, length 4..200, |values| <= 10000; nine variant configurations (gu, pgu, optv, optvp, "
    "optvplc, wcv and wcvp each with robust off/on). Non-trivial: >= 1 missing cell and >= 2 encodings compared. "
    "distinct = SHA-1 of (variant, robust, valid data, mask, parameters)."
)
ASSUMPTIONS = [
    "placeholders are chosen so that no valid cell equals them",
    "a difference between encodings is only excused when the tier-1 curve at the reported lambda leaves +-32766 (outside the claim)",
    "NaN/inf encodings apply to ws2dgu, ws2dpgu, ws2dwcv, ws2dwcvp only (as the property states)",
]
HARD_TIMEOUT_S = {"quick": 900, "thorough": 3600}

CONFIGS = [
    ("ws2dgu", None), ("ws2dpgu", None), ("ws2doptv", None), ("ws2doptvp", None), ("ws2doptvplc", None),
    ("ws2dwcv", False), ("ws2dwcv", True), ("ws2dwcvp", False), ("ws2dwcvp", True),
]
NONFINITE_OK = {"ws2dgu", "ws2dpgu", "ws2dwcv", "ws2dwcvp"}
MIN_VALID = {"ws2dgu": 2, "ws2dpgu": 2, "ws2doptv": 2, "ws2doptvp": 2, "ws2doptvplc": 2, "ws2dwcv": 5, "ws2dwcvp": 5}


def encodings(rng, y, mask, variant):
    """List of (label, series, nodata) re-encodings of the same valid data / missing mask."""
    valid = y[~mask]
    lo, hi = (valid.min(), valid.max()) if valid.size else (0.0, 0.0)
    encs = []
    below = [v for v in (-3000.0, -32768.0, -20000.0) if v < lo]
    above = [v for v in (32767.0, 30000.0, 20000.0) if v > hi]
    for v in below[:2]:
        encs.append((f"below:{int(v)}", np.where(mask, v, y), v))
    ins = S.free_value(valid, rng=rng) if valid.size else None
    if ins is not None:
        encs.append((f"inside:{int(ins)}", np.where(mask, ins, y), ins))
    for v in above[:2]:
        encs.append((f"above:{int(v)}", np.where(mask, v, y), v))
    if valid.size and variant != "ws2doptvplc":
        # a placeholder is any value no valid cell takes - also one that hugs a valid cell (a fill value that went through
        # a float round trip, a sensor value one count away from it): "equal" must mean equal, not close
        v = float(valid[int(rng.integers(valid.size))])
        lab, nd = [("hugging:1e-6-relative", v * (1 + 1e-6) if v else 1e-9), ("hugging:next-float", float(np.nextafter(v, np.inf))), ("hugging:half-a-count", v + 0.5),
                   ("hugging:1e-7-relative-below", v * (1 - 1e-7) if v else -1e-9)][int(rng.integers(0, 4))]
        if not np.any(valid == nd) and np.isfinite(nd):
            encs.append((lab, np.where(mask, nd, y), nd))
    if variant in NONFINITE_OK and mask.any():
        nd = below[0] if below else above[0]
        for lab, val in (("nan", np.nan), ("+inf", np.inf), ("-inf", -np.inf)):
            encs.append((lab, np.where(mask, val, y), nd))
        mix = y.copy()
        choices = np.array([nd, np.nan, np.inf, -np.inf])
        mix[mask] = choices[rng.integers(0, 4, int(mask.sum()))]
        encs.append(("mixed", mix, nd))
    return encs


def gen_params(rng):
    return {
        "lam": float(10.0 ** rng.uniform(-3, 5)),
        "p": float(rng.choice([0.1, 0.5, 0.9, rng.uniform(0.02, 0.98)])),
        "llas": S.gen_llas(rng),
        "lc": float(rng.choice([-1, 0, 0.5, np.nextafter(0.5, 1), 1.0, rng.uniform(-1, 1)])),
    }


def tier1_curve(variant, yy, nodata, prm, lopt):
    """Unrounded curve at the reported lambda (used only to decide whether a case lies outside the claim)."""
    w = W.valid_full(yy, nodata) if variant in NONFINITE_OK else W.valid_eq(yy, nodata)
    ycl = np.where(w > 0, yy, 0.0)
    lam = prm["lam"] if lopt is None else float(lopt)
    if lam == 0 or w.sum() < 2:
        return ycl
    if variant in ("ws2dgu", "ws2doptv", "ws2dwcv"):
        return S.ws2d_solver(ycl, lam, w)
    return W.asym(ycl, lam, w, prm["p"], S.ws2d_solver)["z"]


def check_case(R, y, mask, variant, robust, prm, rng):
    cfg = f"{variant}{'+robust' if robust else ''}"
    prm = dict(prm, robust=bool(robust))
    encs = encodings(rng, y, mask, variant)
    if len(encs) < 2:
        R.count("too_few_encodings")
        return
    n_valid = int((~mask).sum())
    R.evaluation()
    R.case(bool(mask.any()), cfg, y[~mask], mask, prm["lam"], prm["p"], prm["llas"], prm["lc"])
    results = []
    case = {"variant": variant, "robust": bool(robust), "y": y, "mask": mask, "prm": prm,
            "encodings": [e[0] for e in encs]}
    for lab, yy, nd in encs:
        try:
            band, lopt = S.call(variant, yy, nd, prm)
        except Exception as e:  # the kernel itself raised: the encoding of a zero-weight cell changed the outcome
            nonfinite = lab in ("nan", "+inf", "-inf", "mixed")
            R.violation("C02:nonfinite-cell" if nonfinite else "C02:placeholder", f"{cfg}: kernel raises {type(e).__name__} when missing cells are encoded as {lab}: {str(e)[:160]}", dict(case, encoding=lab))
            return
        results.append((lab, yy, nd, np.array(band), None if lopt is None else float(lopt)))
        R.count("kernel_calls")
    ref = results[0]
    # ---- thresholds
    need = MIN_VALID[variant]
    if n_valid < need:
        R.count(f"below_threshold_{cfg}")
        for lab, yy, nd, band, lopt in results:
            repres = np.isfinite(yy)
            exp = np.where(repres, yy, 0).astype(np.int16)
            if not np.array_equal(band[repres], exp[repres]) or (lopt is not None and lopt != 0.0):
                R.violation("C02:threshold-passthrough", f"{cfg}: {n_valid} valid cells (< {need}) but output is not the unchanged input with lopt 0 (encoding {lab}, lopt={lopt})", dict(case, encoding=lab))
                return
        return
    if n_valid == need:
        R.count(f"at_threshold_{cfg}")
    # ---- smoothed: lopt must be a real lambda
    for lab, yy, nd, band, lopt in results:
        if lopt is not None and not (lopt > 0 and np.isfinite(lopt)):
            R.violation("C02:nonfinite-cell" if lab in ("nan", "+inf", "-inf", "mixed") else "C02:threshold-smoothed", f"{cfg}: {n_valid} valid cells (>= {need}) but lopt={lopt} (encoding {lab})", dict(case, encoding=lab))
            return
    # ---- invariance
    for lab, yy, nd, band, lopt in results[1:]:
        R.count("pairs_compared")
        same_l = (lopt == ref[4]) or (lopt is None and ref[4] is None)
        same_b = np.array_equal(band, ref[3])
        if same_l and same_b:
            continue
        # outside the claim?
        z = tier1_curve(variant, ref[1], ref[2], prm, ref[4])
        z2 = tier1_curve(variant, yy, nd, prm, lopt)
        if not (S.in_int16_claim(z) and S.in_int16_claim(z2)):
            R.count("excluded_int16")
            continue
        nonfinite = lab in ("nan", "+inf", "-inf", "mixed")
        key = "C02:nonfinite-cell" if nonfinite else ("C02:placeholder-robust" if robust else "C02:placeholder")
        i = int(np.argmax(band != ref[3])) if not same_b else -1
        R.violation(key, f"{cfg}: result depends on how missing cells are encoded ({ref[0]} vs {lab}): lopt {ref[4]} vs {lopt}; first differing cell {i}: {int(ref[3][i]) if i >= 0 else ''} vs {int(band[i]) if i >= 0 else ''}", dict(case, encoding=lab))
        return
    # ---- gap filling: missing cells hold the fitted curve of the fixed-lambda smoother at the reported lambda
    lab, yy, nd, band, lopt = ref
    if not robust and mask.any():
        lam = prm["lam"] if lopt is None else lopt
        w = W.valid_eq(yy, nd)
        ycl = np.where(w > 0, yy, 0.0)
        if variant in ("ws2dgu", "ws2doptv", "ws2dwcv"):
            z = S.dense_solver(ycl, lam, w)
            z1 = S.ws2d_solver(ycl, lam, w)
        else:
            r2 = W.asym(ycl, lam, w, prm["p"], S.dense_solver)
            r1 = W.asym(ycl, lam, w, prm["p"], S.ws2d_solver)
            if not np.array_equal(r1["ww"], r2["ww"]) or min(r1["min_margin"], r2["min_margin"]) < 1e-9 * max(1.0, float(np.max(np.abs(ycl)))):
                R.count("irls_sign_degenerate")
                return
            z, z1 = r2["z"], r1["z"]
        if not (S.in_int16_claim(z) and S.in_int16_claim(z1)):
            R.count("excluded_int16")
            return
        delta = 10 * float(np.max(np.abs(z - z1))) + 1e-9
        ok, nties, i = S.band_matches(band[mask], z[mask], delta)
        R.count("gap_cells_checked", int(mask.sum()))
        if not ok:
            # "the fitted curve" of C02 is the curve this smoother fitted; how close that is to the exact PLS solution is
            # C01 / C03.  When the system is ill-conditioned (kappa*eps >= 1e-7, the regime of the recorded finding
            # C01:ill-conditioned) the gap cells are held to the repository's own solve with the same weights instead
            ww = w if variant in ("ws2dgu", "ws2doptv", "ws2dwcv") else r1["ww"]
            if W.cond2(yy.size, ww, lam) * 2.0 ** -53 >= 1e-7 and S.band_matches(band[mask], z1[mask], 1e-9)[0]:
                R.count("gap_cells_ill_conditioned_held_to_own_solve", int(mask.sum()))
                return
            cell = int(np.flatnonzero(mask)[i])
            R.violation("C02:gap-fill", f"{cfg}: missing cell {cell} holds {int(band[cell])}, fitted curve there is {z[cell]:.5f} (lambda={lam:.5g})", case)
            return
    if R.want_sample() and mask.any():
        R.sample({"config": cfg, "valid_data": y[~mask][:12], "mask": mask[:24], "encodings": [r[0] for r in results], "band": ref[3][:12], "lopt": ref[4]})


def shard_accessor(spec, R):
    """The accessors hand the caller's placeholder to the kernels - whatever ``nodata`` attribute the cube carries
    (none / the same value / another value / a falsy one) and whatever the placeholder is (0 is falsy, NaN-free)."""
    import pandas as pd
    import xarray as xr
    import hdc.algo  # noqa

    from .. import harness as H

    rng = np.random.default_rng([spec["seed"], 2, 7, spec["sub"]])
    S.warm(S.VARIANTS)
    for it in range(spec["cases"]):
        if R.out_of_time():
            R.count("stopped_on_budget")
            break
        ny, nx, nt = int(rng.integers(1, 3)), int(rng.integers(1, 4)), int(rng.choice([6, 9, 24, 48]))
        ys = [[S.gen_series(rng, nt) for _ in range(nx)] for _ in range(ny)]
        allv = np.concatenate([np.ravel(v) for row in ys for v in row])
        cands = [v for v in (0.0, -3000.0, 32767.0, -1.0, 1.0, 255.0, -32768.0) if not np.any(allv == v)]
        nodata = cands[H.pick(it, 1, len(cands))]
        cube = np.empty((ny, nx, nt), dtype=np.int16)
        for a in range(ny):
            for b in range(nx):
                m = S.gen_mask(rng, nt, kind=["isolated", "runs", "leading", "trailing", "heavy", "allbut"][int(rng.integers(0, 6))], min_valid=None)
                cube[a, b] = np.where(m, nodata, ys[a][b])
        others = [v for v in (-9999.0, 0.0, -3000.0) if v != nodata]
        attrs = [{}, {"nodata": nodata}, {"nodata": others[0]}, {"nodata": others[1]}][H.pick(it, 2, 4)]
        R.count(f"accessor_attr_{'none' if not attrs else ('same' if attrs['nodata'] == nodata else 'other')}")
        R.count(f"accessor_placeholder_{int(nodata)}")
        order = [("y", "x", "time"), ("time", "y", "x")][H.pick(it, 3, 2)]
        da = xr.DataArray(cube, dims=["y", "x", "time"], coords={"time": pd.date_range("2020-01-01", periods=nt, freq="10D")}, attrs=attrs).transpose(*order)
        prm = gen_params(rng)
        lcv = rng.choice([0.2, 0.8], (ny, nx))
        variant = ACC_VARIANTS[H.pick(it, 4, len(ACC_VARIANTS))]
        check_accessor_case(R, variant, cube, nodata, attrs, order, prm, lcv)


ACC_VARIANTS = ["ws2dgu", "ws2dpgu", "ws2doptv", "ws2doptvp", "ws2doptvplc", "ws2dwcv", "ws2dwcvp"]


def check_accessor_case(R, variant, cube, nodata, attrs, order, prm, lcv):
    import pandas as pd
    import xarray as xr
    import hdc.algo  # noqa

    ny, nx, nt = cube.shape
    da = xr.DataArray(cube, dims=["y", "x", "time"], coords={"time": pd.date_range("2020-01-01", periods=nt, freq="10D")}, attrs=attrs).transpose(*order)
    llas = np.asarray(prm["llas"], dtype=float)
    calls = {
        "ws2dgu": lambda: (da.hdc.whit.whits(nodata=nodata, s=prm["lam"]), None),
        "ws2dpgu": lambda: (da.hdc.whit.whits(nodata=nodata, s=prm["lam"], p=prm["p"]), None),
        "ws2doptv": lambda: da.hdc.whit.whitsvc(nodata=nodata, srange=llas),
        "ws2doptvp": lambda: da.hdc.whit.whitsvc(nodata=nodata, srange=llas, p=prm["p"]),
        "ws2doptvplc": lambda: da.hdc.whit.whitsvc(nodata=nodata, lc=xr.DataArray(lcv, dims=["y", "x"]), p=prm["p"]),
        "ws2dwcv": lambda: da.hdc.whit.whitswcv(nodata=nodata, srange=llas, robust=False),
        "ws2dwcvp": lambda: da.hdc.whit.whitswcv(nodata=nodata, srange=llas, p=prm["p"], robust=False),
    }
    case = {"accessor": variant, "cube": cube, "nodata": nodata, "attrs": {k: float(v) for k, v in attrs.items()}, "order": list(order), "prm": prm, "lc": lcv}
    R.evaluation()
    R.case(True, "acc", variant, cube, nodata, str(attrs))
    try:
        res = calls[variant]()
    except Exception as e:
        R.violation("C02:accessor-raises", f"{variant} through the accessor raises {type(e).__name__}: {str(e)[:140]} (placeholder {nodata}, attrs {attrs})", case)
        return
    band = res[0] if isinstance(res, tuple) else res[[k for k in res.data_vars if k != "sgrid"][0]]
    out = band.transpose("y", "x", "time").values
    for a in range(ny):
        for b in range(nx):
            p2 = dict(prm, robust=False, lc=float(lcv[a, b]))
            eb, _ = S.call(variant, cube[a, b], nodata, p2)
            R.count("accessor_pixels")
            if not np.array_equal(out[a, b], np.asarray(eb)):
                R.violation("C02:accessor-placeholder", f"{variant} through the accessor with nodata={nodata} (cube attrs {attrs}) differs from the kernel given that placeholder: pixel ({a},{b}) {out[a, b][:6].tolist()} vs {np.asarray(eb)[:6].tolist()}", case)
                return


def plan(tier, seed):
    q = tier == "quick"
    specs = []
    for i in range(2 if q else 8):
        specs.append({"kind": "accessor", "sub": i, "cases": 60 if q else 1500, "budget_s": 110 if q else 600})
    for i in range(14 if q else 32):
        specs.append({"kind": "random", "sub": i, "cases": 70 if q else 2500, "budget_s": 110 if q else 600})
    for i in range(2 if q else 8):
        specs.append({"kind": "threshold", "sub": i, "cases": 80 if q else 1500, "budget_s": 110 if q else 600})
    return specs


def run_shard(spec, R):
    if spec["kind"] == "accessor":
        return shard_accessor(spec, R)
    rng = np.random.default_rng([spec["seed"], 2, 1 if spec["kind"] == "random" else 2, spec["sub"]])
    S.warm(S.VARIANTS)
    for it in range(spec["cases"]):
        if R.out_of_time():
            R.count("stopped_on_budget")
            break
        n = int(rng.choice([4, 5, 6, 7, 9, 12, 20, 36, 72, 120, 200]))
        y = S.gen_series(rng, n)
        prm = gen_params(rng)
        if spec["kind"] == "random":
            mask = S.gen_mask(rng, n, kind=["isolated", "runs", "leading", "trailing", "heavy", "isolated", "allbut"][it % 7], min_valid=None)
            R.count("mask_" + ["isolated", "runs", "leading", "trailing", "heavy", "isolated", "allbut"][it % 7])
        else:
            k = it % 8  # exactly k valid cells, k = 0..7
            mask = np.ones(n, dtype=bool)
            if k:
                mask[rng.choice(n, min(k, n), replace=False)] = False
            R.count(f"exactly_{min(k, n)}_valid")
        for variant, robust in CONFIGS:
            check_case(R, y, mask, variant, robust, prm, rng)


def finalize(agg, tier):
    c = agg["counters"]
    out = []
    for k in ("pairs_compared", "gap_cells_checked", "accessor_pixels", "accessor_attr_none", "accessor_attr_same", "accessor_attr_other", "accessor_placeholder_0"):
        if c.get(k, 0) == 0:
            out.append(f"monitor {k} never evaluated")
    for variant, robust in CONFIGS:
        cfg = f"{variant}{'+robust' if robust else ''}"
        if c.get(f"below_threshold_{cfg}", 0) == 0 or c.get(f"at_threshold_{cfg}", 0) == 0:
            out.append(f"threshold of {cfg} not observed on both sides")
    return out


def replay(case, R):
    if "accessor" in case:
        S.warm(S.VARIANTS)
        prm = case["prm"]
        prm["llas"] = np.asarray(prm["llas"], dtype=float)
        check_accessor_case(R, case["accessor"], np.asarray(case["cube"]).astype(np.int16), float(case["nodata"]), dict(case["attrs"]), tuple(case["order"]), prm, np.asarray(case["lc"], dtype=float))
        return
    S.warm([case["variant"], "ws2dgu", "ws2dpgu"])
    rng = np.random.default_rng(0)
    prm = case["prm"]
    prm["llas"] = np.asarray(prm["llas"], dtype=float)
    check_case(R, np.asarray(case["y"], dtype=float), np.asarray(case["mask"], dtype=bool), case["variant"], case["robust"], prm, rng)
