"""C06 — smoothers keep linear series, commute with integer offsets and (fixed-lambda / V-curve) with time reversal.

Pair monitors over two calls of the same real kernel on related inputs.  The unrounded curves needed for the
rounding-tie rule come from the tier-1 replica (non-robust) or from a state tap on the interpreted kernel (robust).
"""

from __future__ import annotations

import numpy as np

from .. import shim
from .. import smooth as S
from ..oracles import whittaker as W
from . import c05

PID = "C06"
RULE = (
    "case = a pair (or triple) of runs of one variant configuration on (y, nodata), (y + c, nodata + c) and reversed y; "
    "nine configurations (gu, pgu, optv, optvp, optvplc, wcv/wcvp with robust off/on), length 4..200, all gap patterns, "
    "integer offsets with |values| + |c| <= 10000; plus exactly linear series (with gaps). Non-trivial: series not constant "
    "and (gap present or p != 0.5 or a selecting variant). distinct = SHA-1 of (configuration, y, mask, parameters, c)."
)
ASSUMPTIONS = [
    "a +-1 band difference is tolerated only where the unrounded curve is within delta of a rounding tie; delta = 10 x the measured disagreement of the two runs' unrounded curves + 1e-9",
    "a different lambda is tolerated only when the replica's criterion values of the two candidates agree to 1e-9 relative, or differ by no more than 10 x the change of that same replica criterion between the two related inputs (measured resolution), or the criterion is at rounding-noise level (all counted)",
    "robust variants: a different lambda is tolerated when the returned curve's weighted residual sum is below (1e-9 scale)^2 in either frame, or when our replica of the score with the tapped weights of the deciding pass separates the candidates by <= 10 x its own change between the two frames",
    "pairs whose unrounded curves disagree by >= 0.05 (ill-conditioned solves, C01 known finding) and curves leaving +-32766 are outside the claim and counted",
]
HARD_TIMEOUT_S = {"quick": 900, "thorough": 3600}

CONFIGS = [
    ("ws2dgu", None), ("ws2dpgu", None), ("ws2doptv", None), ("ws2doptvp", None), ("ws2doptvplc", None),
    ("ws2dwcv", False), ("ws2dwcv", True), ("ws2dwcvp", False), ("ws2dwcvp", True),
]
REVERSIBLE = {"ws2dgu", "ws2dpgu", "ws2doptv", "ws2doptvp", "ws2doptvplc"}
SELECTING = {"ws2doptv", "ws2doptvp", "ws2doptvplc", "ws2dwcv", "ws2dwcvp"}
ASYM = {"ws2dpgu", "ws2doptvp", "ws2doptvplc", "ws2dwcvp"}


def grid_of(variant, prm):
    if variant == "ws2doptvplc":
        return S.GRID_HI if prm["lc"] > 0.5 else S.GRID_LO
    return prm["llas"]


def curve(variant, robust, yy, nodata, prm, lopt):
    """Unrounded curve the kernel rounded, at its own reported lambda."""
    w = W.valid_full(yy, nodata)
    ycl = np.where(w > 0, yy, 0.0)
    lam = prm["lam"] if lopt is None else lopt
    if robust:
        f = c05.interp_kernel(variant)
        out_i = np.zeros(yy.size, dtype=np.int16)
        lo = np.zeros(1)
        with np.errstate(all="ignore"), shim.Tap(f, at_return=["z", "robust_gcv"]) as tap:
            if variant == "ws2dwcv":
                f(yy.astype(float), nodata, np.asarray(prm["llas"], dtype=float), True, out_i, lo)
            else:
                f(yy.astype(float), nodata, prm["p"], np.asarray(prm["llas"], dtype=float), True, out_i, lo)
        z = tap.ret[0]["z"]
        if abs(float(lo[0]) - lam) > 1e-12 * lam:
            return None  # interpreted world selected another lambda (noise-level criterion): no curve to compare with
        return np.asarray(z, dtype=float)
    if variant in ASYM:
        return W.asym(ycl, lam, w, prm["p"], S.ws2d_solver)["z"]
    return S.ws2d_solver(ycl, lam, w)


def criterion(variant, yy, nodata, prm):
    """Replica criterion values on the grid (non-robust selection), and whether it is at noise level."""
    w = W.valid_full(yy, nodata)
    ycl = np.where(w > 0, yy, 0.0)
    scale = max(1.0, float(np.max(np.abs(ycl))))
    g = grid_of(variant, prm)
    if variant in ("ws2doptv", "ws2doptvp", "ws2doptvplc"):
        v = W.vcurve(ycl, w, g, S.ws2d_solver, p=None if variant == "ws2doptv" else prm["p"])
        noise = (1e-9 * scale) ** 2
        deg = (not np.all(np.isfinite(v["v"]))) or np.any(v["raw_fit"] < noise) or np.any(v["raw_pen"] < noise)
        mids = (g[:-1] + g[1:]) / 2
        return v["v"], 10.0 ** mids, bool(deg)
    sel = W.gcv_select(ycl, w, g, S.ws2d_solver)
    noise = (1e-9 * scale) ** 2 * w.sum()
    deg = any(float(np.sum(w * (ycl - S.ws2d_solver(ycl, 10.0 ** float(ll), w)) ** 2)) < noise for ll in g)
    return sel["scores"], 10.0 ** np.asarray(g, dtype=float), bool(deg)


def _tap_robust(variant, fy, fnd, prm):
    f = c05.interp_kernel(variant)
    out_i = np.zeros(fy.size, dtype=np.int16)
    lo = np.zeros(1)
    lines = {("mad = np.median(np.abs(r_arr[", "u_arr = r_arr /"): ["w_temp", "s", "mad"]}
    with np.errstate(all="ignore"), shim.Tap(f, at_return=["robust_gcv", "robust_weights", "z"], lines=lines) as tap:
        if variant == "ws2dwcv":
            f(fy.astype(float), fnd, np.asarray(prm["llas"], dtype=float), True, out_i, lo)
        else:
            f(fy.astype(float), fnd, prm["p"], np.asarray(prm["llas"], dtype=float), True, out_i, lo)
    return tap


def _replica_gcv(fy, fnd, wt, lam):
    ok = W.valid_full(fy, fnd)
    ycl = np.where(ok > 0, fy, 0.0)
    return W.gcv_score(ycl, S.ws2d_solver(ycl, lam, wt), wt, lam)[0]


def robust_lambda_excused(R, variant, yy, nodata, prm, l1, l2, other):
    """Robust GCV chose different lambdas on (y, nodata) and (y + c, nodata + c).

    (1) noise level: the tapped best score, or the weighted residual sum of the returned curve (score = wsse /
        denominator and the denominator is ~1e-9 in the interpolating regime), is below (1e-9 * scale)^2 in either frame;
    (2) floating-point tie: with the weights the kernel used in the deciding pass (tapped), our own replica of the score
        (repository solver, not the kernel's criterion code) separates the two candidates by no more than 10 x the
        amount by which the same replica score changes between the two frames (each with its own tapped weights when
        those agree to 1e-6), i.e. by less than the measured resolution of the criterion on these inputs.  The first pass (weights w) is examined when it already differs."""
    frames = ((yy, nodata),) + ((other,) if other is not None else ())
    taps = []
    for fy, fnd in frames:
        tap = _tap_robust(variant, fy, fnd, prm)
        taps.append(tap)
        rg = np.asarray(tap.ret[0]["robust_gcv"], dtype=float)
        ok = np.isfinite(fy) & (fy != fnd)
        scale = max(1.0, float(np.max(np.abs(fy[ok]))))
        rw = np.asarray(tap.ret[0]["robust_weights"], dtype=float)
        z = np.asarray(tap.ret[0]["z"], dtype=float)
        wsse = float(np.sum(rw[ok] * (fy[ok] - z[ok]) ** 2))
        if np.any(rg[:, 0] < (1e-9 * scale) ** 2) or wsse < (1e-9 * scale) ** 2 * max(1, int((rw[ok] > 0).sum())):
            R.count("lambda_diff_degenerate")
            return True
    # a robust pass whose residual scale lies inside the forward-error bound kappa*eps*max|y| of the solve it was taken
    # from (C01 known-finding regime: a handful of valid cells, lambda ~1e6): the bisquare weights of the two frames are
    # then different roundings of noise, and so is everything selected with them (same class as in C13)
    for (fy, fnd), tap in zip(frames, taps):
        ok = np.isfinite(fy) & (fy != fnd)
        ymax = max(1.0, float(np.max(np.abs(fy[ok]))))
        for _, loc in tap.events:
            wt, s_, mad = loc.get("w_temp"), loc.get("s"), loc.get("mad")
            if wt is None or s_ is None or mad is None or (np.asarray(wt) > 0).sum() < 2 or not np.isfinite(float(mad)):
                continue
            if 0 < float(mad) <= W.cond2(fy.size, np.asarray(wt, dtype=float), float(s_)) * 2.0 ** -53 * ymax:
                R.count("excluded_ill_conditioned")
                R.count("robust_scale_in_solver_noise_excluded")
                return True
    if other is None or any(len(t.events) < 2 for t in taps):
        return False
    evA, evB = taps[0].events, taps[1].events
    s0A, s0B = float(evA[0][1]["s"]), float(evB[0][1]["s"])
    if abs(s0A - s0B) > 1e-12 * max(s0A, s0B):
        wt, ca, cb, tag = np.asarray(evA[0][1]["w_temp"], dtype=float), s0A, s0B, "pass0"
        wtB = wt
    else:
        wt, ca, cb, tag = np.asarray(evA[1][1]["w_temp"], dtype=float), l1, l2, "pass1"
        # the robust weights of the second frame are derived from residuals ~1e-5 of values ~1e3 and carry their own
        # rounding noise, to which the score of the interpolating regime is very sensitive (1/(1 - trH/N) ~ 1e6); they are
        # part of the resolution as long as they are the same weights up to that noise -- weights that really differ
        # between the frames are a violation in themselves and never excuse anything
        wtB = np.asarray(evB[1][1]["w_temp"], dtype=float)
        if wtB.shape != wt.shape or not np.all(np.abs(wtB - wt) <= 1e-6):
            wtB = wt
    if (wt > 0).sum() < 2:
        return False
    gA = [_replica_gcv(yy, nodata, wt, k) for k in (ca, cb)]
    gB = [_replica_gcv(other[0], other[1], wtB, k) for k in (ca, cb)]
    if not np.all(np.isfinite(gA + gB)):
        return False
    res = max(abs(a - b) for a, b in zip(gA, gB))
    if abs(gA[0] - gA[1]) <= 10 * res + 1e-9 * max(abs(gA[0]), abs(gA[1])):
        R.count("lambda_diff_tie")
        R.count(f"lambda_diff_tie_robust_{tag}")
        R.note_max("max_robust_tie_rel_gap", abs(gA[0] - gA[1]) / max(abs(gA[0]), abs(gA[1]), 1e-300))
        return True
    return False


def lambda_excused(R, variant, robust, yy, nodata, prm, l1, l2, other=None):
    """Different lambdas on related inputs: tolerated only for a criterion tie / noise-level criterion."""
    if robust:
        return robust_lambda_excused(R, variant, yy, nodata, prm, l1, l2, other)
    vals, lams, deg = criterion(variant, yy, nodata, prm)
    if deg:
        R.count("lambda_diff_degenerate")
        return True
    if other is not None:
        # the criterion is shift-/reversal-invariant in exact arithmetic; if our own replica of it (built on the repository's
        # float64 solver, not on the kernel under test) already changes between the two inputs, the solves are
        # ill-conditioned (C01 known finding: few valid cells far from long gaps, large lambda) and the pair is outside the claim
        vals2, _, deg2 = criterion(variant, other[0], other[1], prm)
        ka = int(np.argmin(np.abs(lams - l1)))
        kb = int(np.argmin(np.abs(lams - l2)))
        if deg2 or any((not np.isfinite(vals[k]) or not np.isfinite(vals2[k]) or abs(vals[k] - vals2[k]) > 1e-6 * max(abs(vals[k]), abs(vals2[k]))) for k in (ka, kb)):
            R.count("excluded_ill_conditioned")
            return True
        # floating-point tie: the two candidates are separated by no more than 10 x the amount by which our own replica of
        # the criterion changes between the two inputs, i.e. by less than the criterion's measured resolution here
        res = max(abs(float(vals[k]) - float(vals2[k])) for k in (ka, kb))
        if abs(float(vals[ka]) - float(vals[kb])) <= 10 * res + 1e-9 * max(abs(float(vals[ka])), abs(float(vals[kb]))):
            R.count("lambda_diff_tie")
            R.count("lambda_diff_tie_within_resolution")
            return True
    k1 = int(np.argmin(np.abs(lams - l1)))
    k2 = int(np.argmin(np.abs(lams - l2)))
    if np.isfinite(vals[k1]) and np.isfinite(vals[k2]) and S.rel_tied(float(vals[k1]), float(vals[k2]), 1e-9):
        R.count("lambda_diff_tie")
        return True
    return False


def compare(R, relation, cfg, variant, robust, prm, A, B, case, shift=0):
    """A, B = (yy, nodata, band, lopt); B's band is already mapped back into A's frame, its series / nodata are the
    ones the kernel saw (its unrounded curve is mapped back with ``shift``)."""
    yA, ndA, bA, lA = A
    yB, ndB, bB, lB = B
    R.count(f"pairs_{relation}")
    if lA is not None and lA != lB:
        if abs(lA - lB) <= 1e-12 * max(lA, lB):
            pass
        elif lambda_excused(R, variant, robust, yA, ndA, prm, lA, lB, other=(yB, ndB)):
            return
        else:
            R.violation(f"C06:{relation}-lambda", f"{cfg}: lambda changes under {relation}: {lA:.6g} vs {lB:.6g} (criterion not tied)", case)
            return
    if np.array_equal(bA, bB):
        return
    zA = curve(variant, robust, yA, ndA, prm, lA)
    zB = curve(variant, robust, yB, ndB, prm, lB)
    if zA is None or zB is None:
        R.count("curve_unavailable")
        return
    zB = zB - shift
    if not (S.in_int16_claim(zA) and S.in_int16_claim(zB)):
        R.count("excluded_int16")
        return
    dis = float(np.max(np.abs(zA - zB)))
    if dis >= 0.05:
        R.count("excluded_ill_conditioned")
        R.note_max("max_curve_disagreement_excluded", dis)
        return
    delta = 10 * dis + 1e-9
    if robust:
        # the robust curves come from the interpreted run; the compiled kernel's own curve carries the forward error
        # kappa*eps*max|y| of its final solve on top (lambdas differing in the last ulp, other summation order)
        tapF = _tap_robust(variant, yB, ndB, prm)
        rw = np.asarray(tapF.ret[0]["robust_weights"], dtype=float)
        if (rw > 0).sum() >= 2:
            okB = np.isfinite(yB) & (yB != ndB)
            delta += W.cond2(yB.size, rw, float(lB)) * 2.0 ** -53 * max(float(np.max(np.abs(yA[np.isfinite(yA) & (yA != ndA)]))), float(np.max(np.abs(yB[okB]))))
    diff = bA.astype(np.int64) - bB.astype(np.int64)
    frac = np.abs(zA - np.floor(zA) - 0.5)
    bad = (diff != 0) & ~((np.abs(diff) == 1) & (frac <= delta))
    R.count("tie_cells_tolerated", int(np.sum(diff != 0) - np.sum(bad)))
    if np.any(bad):
        i = int(np.argmax(bad))
        R.violation(f"C06:{relation}-band", f"{cfg}: output does not commute with {relation} at cell {i}: {int(bA[i])} vs {int(bB[i])} (unrounded {zA[i]:.6f} / {zB[i]:.6f}, delta {delta:.2g})", case)


def run_case(R, rng, y, mask, prm, kind):
    n = y.size
    valid = y[~mask]
    lo, hi = float(valid.min()), float(valid.max())
    room = int(10000 - max(abs(lo), abs(hi)))
    if room >= 1:
        c = int(rng.integers(1, room + 1)) * int(rng.choice([-1, 1]))
        if abs(lo + c) > 10000 or abs(hi + c) > 10000:
            c = -c
    else:
        c = 0
    nds = [v for v in (-3000.0, -20000.0, 20000.0, 30000.0, 0.0) if not np.any(valid == v) and not np.any(valid + c == v + c) and abs(v + c) <= 32767]
    nodata = float(nds[int(rng.integers(0, len(nds)))])
    yy = np.where(mask, nodata, y)
    yy2 = np.where(mask, nodata + c, y + c)
    for variant, robust in CONFIGS:
        if (~mask).sum() < (5 if variant in ("ws2dwcv", "ws2dwcvp") else 2):
            continue
        cfg = f"{variant}{'+robust' if robust else ''}"
        prm_c = dict(prm, robust=bool(robust))
        p_eff = prm["p"] if variant in ASYM else None
        nontriv = bool(np.ptp(valid) > 0 and (mask.any() or (p_eff is not None and p_eff != 0.5) or variant in SELECTING))
        R.evaluation()
        R.case(nontriv, cfg, y, mask, prm["lam"], prm["p"], prm["llas"], prm["lc"], c)
        case = {"variant": variant, "robust": bool(robust), "y": y, "mask": mask, "nodata": nodata, "c": c, "prm": prm, "kind": kind}
        try:
            b1, l1 = S.call(variant, yy, nodata, prm_c)
            b1 = np.array(b1)
            l1 = None if l1 is None else float(l1)
        except Exception as e:
            R.violation("C06:raises", f"{cfg} raises {type(e).__name__}: {str(e)[:160]}", case)
            continue
        A = (yy, nodata, b1, l1)
        # ---- exactly linear series stay unchanged, gaps filled on the same line
        if kind == "linear":
            t = np.arange(n)
            a, b = np.polyfit(t[~mask], valid, 1)
            line = np.round(a * t + b).astype(np.int64)
            R.count("linear_cases")
            if np.max(np.abs(line)) <= 32766 and not np.array_equal(b1.astype(np.int64), line):
                z = curve(variant, robust, yy, nodata, prm_c, l1)
                dev = float(np.max(np.abs(z - (a * t + b)))) if z is not None else float("nan")
                zd = S.dense_solver(np.where(mask, 0.0, y), (prm["lam"] if l1 is None else l1), W.valid_full(yy, nodata)) if not robust and variant not in ASYM else None
                if zd is not None and float(np.max(np.abs(zd - (a * t + b)))) < 1e-6 and dev >= 0.05:
                    R.count("excluded_ill_conditioned")
                    R.note_max("max_curve_disagreement_excluded", dev)
                else:
                    i = int(np.argmax(b1.astype(np.int64) != line))
                    R.violation("C06:linear", f"{cfg}: exactly linear series (slope {a:.4g}) is not returned on the same line: cell {i} {int(b1[i])} vs {int(line[i])} (lambda {l1 if l1 is not None else prm['lam']:.4g}, curve deviation {dev:.3g})", case)
                    continue
        # ---- offset
        if c != 0:
            try:
                b2, l2 = S.call(variant, yy2, nodata + c, prm_c)
            except Exception as e:
                R.violation("C06:raises", f"{cfg} raises {type(e).__name__} on the shifted series: {str(e)[:160]}", case)
                continue
            b2 = np.array(b2).astype(np.int64) - c
            l2 = None if l2 is None else float(l2)
            if np.max(np.abs(b2)) <= 32767:
                compare(R, "offset", cfg, variant, robust, prm_c, A, (yy2, nodata + c, b2.astype(np.int64), l2), dict(case, relation="offset"), shift=c)
        # ---- reversal
        if variant in REVERSIBLE:
            b3, l3 = S.call(variant, yy[::-1].copy(), nodata, prm_c)
            b3 = np.array(b3)[::-1]
            l3 = None if l3 is None else float(l3)
            compare_rev(R, cfg, variant, prm_c, A, (yy, nodata, b3, l3), dict(case, relation="reversal"))
        if R.want_sample() and nontriv:
            R.sample({"config": cfg, "y": yy[:12], "nodata": nodata, "c": c, "band": b1[:12], "lopt": l1})


def compare_rev(R, cfg, variant, prm, A, B, case):
    """Reversal: the curve of the reversed series is computed on the reversed input and flipped back."""
    yA, ndA, bA, lA = A
    _, _, bB, lB = B
    R.count("pairs_reversal")
    if lA is not None and lA != lB and abs(lA - lB) > 1e-12 * max(lA, lB):
        if lambda_excused(R, variant, False, yA, ndA, prm, lA, lB, other=(yA[::-1].copy(), ndA)):
            return
        R.violation("C06:reversal-lambda", f"{cfg}: lambda changes under time reversal: {lA:.6g} vs {lB:.6g} (criterion not tied)", case)
        return
    if np.array_equal(bA, bB):
        return
    zA = curve(variant, False, yA, ndA, prm, lA)
    zB = curve(variant, False, yA[::-1].copy(), ndA, prm, lB)[::-1]
    if not (S.in_int16_claim(zA) and S.in_int16_claim(zB)):
        R.count("excluded_int16")
        return
    dis = float(np.max(np.abs(zA - zB)))
    if dis >= 0.05:
        R.count("excluded_ill_conditioned")
        R.note_max("max_curve_disagreement_excluded", dis)
        return
    delta = 10 * dis + 1e-9
    diff = bA.astype(np.int64) - bB.astype(np.int64)
    frac = np.abs(zA - np.floor(zA) - 0.5)
    bad = (diff != 0) & ~((np.abs(diff) == 1) & (frac <= delta))
    R.count("tie_cells_tolerated", int(np.sum(diff != 0) - np.sum(bad)))
    if np.any(bad):
        i = int(np.argmax(bad))
        R.violation("C06:reversal-band", f"{cfg}: output does not commute with time reversal at cell {i}: {int(bA[i])} vs {int(bB[i])} (unrounded {zA[i]:.6f} / {zB[i]:.6f})", case)


def gen_params(rng):
    return {
        "lam": float(10.0 ** rng.uniform(-3, 5)),
        "p": float(rng.choice([0.1, 0.5, 0.9, rng.uniform(0.02, 0.98)])),
        "llas": S.gen_llas(rng),
        "lc": float(rng.choice([-1, 0, 0.5, 0.51, 1.0, rng.uniform(-1, 1)])),
    }


def plan(tier, seed):
    q = tier == "quick"
    return [{"kind": "pairs", "sub": i, "cases": 45 if q else 1500, "budget_s": 110 if q else 600} for i in range(16 if q else 32)]


def run_shard(spec, R):
    rng = np.random.default_rng([spec["seed"], 6, spec["sub"]])
    S.warm(S.VARIANTS)
    for it in range(spec["cases"]):
        if R.out_of_time():
            R.count("stopped_on_budget")
            break
        n = int(rng.choice([4, 5, 6, 8, 12, 20, 36, 72, 120, 200]))
        kind = "linear" if it % 4 == 0 else "general"
        if kind == "linear":
            span = int(rng.integers(0, 9000))
            slope = rng.integers(-(span // max(1, n - 1)), span // max(1, n - 1) + 1)
            y = (slope * np.arange(n) + rng.integers(-500, 500)).astype(float)
        else:
            y = S.gen_series(rng, n, lim=int(rng.choice([100, 2000, 9000])))
        mask = S.gen_mask(rng, n, kind=None if it % 3 else "none", min_valid=2)
        run_case(R, rng, y, mask, gen_params(rng), kind)


def finalize(agg, tier):
    c = agg["counters"]
    out = []
    for k in ("pairs_offset", "pairs_reversal", "linear_cases"):
        if c.get(k, 0) == 0:
            out.append(f"monitor {k} never evaluated")
    return out


def replay(case, R):
    S.warm(S.VARIANTS)
    rng = np.random.default_rng(0)
    y = np.asarray(case["y"], dtype=float)
    mask = np.asarray(case["mask"], dtype=bool)
    prm = case["prm"]
    prm["llas"] = np.asarray(prm["llas"], dtype=float)
    # re-run this series through every configuration with the recorded offset
    n = y.size
    valid = y[~mask]
    c = int(case["c"])
    nodata = float(case["nodata"])
    global CONFIGS
    keep = CONFIGS
    try:
        CONFIGS = [(case["variant"], case["robust"] if case["variant"] in ("ws2dwcv", "ws2dwcvp") else None)]

        class FixedRng:
            def integers(self, a, b=None, *k, **kw):
                return abs(c) if b is not None and a == 1 else 0

            def choice(self, seq, *a, **k):
                return (1 if c >= 0 else -1) if list(seq) == [-1, 1] else seq[0]

        # simplest faithful replay: inline the relevant part with the recorded c / nodata
        variant, robust = CONFIGS[0]
        prm_c = dict(prm, robust=bool(robust))
        yy = np.where(mask, nodata, y)
        b1, l1 = S.call(variant, yy, nodata, prm_c)
        b1 = np.array(b1)
        l1 = None if l1 is None else float(l1)
        A = (yy, nodata, b1, l1)
        cfg = f"{variant}{'+robust' if robust else ''}"
        R.evaluation()
        if c:
            b2, l2 = S.call(variant, np.where(mask, nodata + c, y + c), nodata + c, prm_c)
            compare(R, "offset", cfg, variant, bool(robust), prm_c, A, (np.where(mask, nodata + c, y + c), nodata + c, np.array(b2).astype(np.int64) - c, None if l2 is None else float(l2)), case, shift=c)
        if variant in REVERSIBLE:
            b3, l3 = S.call(variant, yy[::-1].copy(), nodata, prm_c)
            compare_rev(R, cfg, variant, prm_c, A, (yy, nodata, np.array(b3)[::-1], None if l3 is None else float(l3)), case)
        if case.get("kind") == "linear":
            t = np.arange(n)
            a, b = np.polyfit(t[~mask], valid, 1)
            line = np.round(a * t + b).astype(np.int64)
            if np.max(np.abs(line)) <= 32766 and not np.array_equal(b1.astype(np.int64), line):
                R.violation("C06:linear", f"{cfg}: linear series not returned on the same line", case)
    finally:
        CONFIGS = keep
