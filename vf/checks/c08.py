"""C08 — SPI preserves the ordering of observations and never wraps or crashes.

Boundary monitors on gammastd_yxt / gammastd_grp / DataArray.hdc.algo.spi:
 order       within a pixel (group) the output is a non-decreasing function of the observation, equal -> equal
 saturation  indices beyond int16 (or infinite) saturate with the right sign; never 0 / a sign flip / a wrapped value
 nodata      nodata and negative cells -> nodata; unfittable pixels -> nodata everywhere
 isolation   no input raises; a bad pixel does not change its neighbours (pixel alone == pixel in the cube)
"""

from __future__ import annotations

import importlib
import math

import numpy as np

from ..oracles import spi as O
from . import c07

PID = "C08"
RULE = (
    "case = a pixel (or cube) with hostile content: outliers x10^(1..6) and x10^(-1..-300) of the calibration mean, shape "
    "up to 1e4 (low-variance window), negative values, all-nodata / all-negative / all-zero / >90% zeros / constant / "
    "no-positive-in-window pixels mixed with ordinary ones; int16 / float32 / float64; ungrouped, grouped and accessor "
    "paths. Non-trivial: contains an outlier beyond +-3 SPI, a bad-pixel class, or >= 1 tie. distinct = SHA-1 of the data."
)
ASSUMPTIONS = [
    "expected indices come from the C07 oracle (SciPy); a decrease of exactly 1 unit between two observations is tolerated only when the oracle's 1000*SPI of the two differ by less than its own resolution",
    "saturation targets: +32767 for >= 32767.5 or +inf; -32768 or -32767 for <= -32767.5 or -inf",
    "a constant pixel is only required not to raise and to give equal indices to equal observations (the property lists it among the inputs, not among the all-nodata outcomes)",
]
HARD_TIMEOUT_S = {"quick": 900, "thorough": 3600}

BAD = ["all_nodata", "all_negative", "all_zero", "mostly_zero", "constant", "no_pos_in_window", "single_valid"]


def st():
    return c07.stats_mod()


def gen_hostile(rng, dtype, n):
    """Ordinary gamma pixel plus outliers relative to the calibration data."""
    shape = float(10 ** rng.uniform(-1, 4))
    scale = float(10 ** rng.uniform(-1, 3))
    if dtype == "int16":
        scale = min(scale, 8000.0 / shape)
        scale = max(scale, 1.5 / shape)
    x = rng.gamma(shape, scale, n)
    nodata = float(rng.choice([-9999, -1, 32767, -32768, 0, 0]))  # 0 as fill value: a zero cell is then a missing cell, not a dry one
    m = float(np.mean(x))
    k = int(rng.integers(1, max(2, n // 4)))
    idx = rng.choice(n, k, replace=False)
    up = rng.random(k) < 0.5
    fac = np.where(up, 10.0 ** rng.integers(1, 7, k), 10.0 ** -rng.choice([1, 2, 5, 20, 100, 300], k).astype(float))
    x[idx] = m * fac
    if dtype == "int16":
        x = np.clip(np.round(x), 0, 32000)
    elif dtype == "float32":
        x = x.astype(np.float32).astype(np.float64)
    x = np.where(x == nodata, x + 1, x)
    if rng.random() < 0.4:
        x[rng.random(n) < 0.15] = nodata
    if rng.random() < 0.3:
        j = rng.choice(n, max(1, n // 10), replace=False)
        x[j] = -rng.integers(2, 100, j.size)
        x = np.where(x == nodata, x - 1, x)
    if rng.random() < 0.3:
        x[rng.random(n) < rng.uniform(0, 0.5)] = 0
    # calibration window never contains the outliers when possible (outliers *relative to the calibration data*)
    if rng.random() < 0.6 and n >= 8:
        c0, c1 = 0, n
    else:
        c0 = int(rng.integers(0, max(1, n - 3)))
        c1 = int(rng.integers(min(n, c0 + 2), n + 1))
    return x.astype(dtype), nodata, c0, c1


def gen_bad(rng, dtype, n, kind, nodata):
    if kind == "all_nodata":
        x = np.full(n, nodata)
    elif kind == "all_negative":
        x = -rng.integers(1, 500, n).astype(float)
        x = np.where(x == nodata, x - 1, x)
    elif kind == "all_zero":
        x = np.zeros(n)
    elif kind == "mostly_zero":
        x = np.zeros(n)
        k = max(1, int(0.05 * n))  # callers guarantee n >= 24: zero share > 0.9
        x[rng.choice(n, k, replace=False)] = rng.integers(1, 300, k)
    elif kind == "constant":
        x = np.full(n, float(rng.choice([7, 7.3, 1234, 0.1]) if dtype != "int16" else rng.integers(1, 3000)))
    elif kind == "no_pos_in_window":
        x = rng.gamma(2, 50, n)
        x[: n // 2] = 0  # callers use the window [0, n//2)
    elif kind == "single_valid":
        x = np.full(n, nodata)
        x[rng.integers(0, n)] = 5
    x = np.where((x == nodata) & (kind not in ("all_nodata", "single_valid")), x + 1, x)
    return x.astype(dtype)


def check_order_and_saturation(R, got, x, nodata, c0, c1, case, where):
    """got: int16 output for one pixel."""
    xf = np.asarray(x, dtype=np.float64)
    valid = (xf != nodata) & (xf >= 0)
    if np.any(got[~valid] != nodata):
        i = int(np.flatnonzero(~valid & (got != nodata))[0])
        R.violation("C08:nodata-cell", f"{where}: cell {i} (value {xf[i]}) is nodata/negative but got {int(got[i])}", case)
        return False
    exp = c07.expected(x, nodata, c0, c1)
    if exp is None:
        return None  # unfittable classes are handled by the caller
    g = got[valid].astype(np.int64)
    v = xf[valid]
    spi = exp["spi"][valid]
    order = np.argsort(v, kind="stable")
    v, g, spi = v[order], g[order], spi[order]
    R.count("order_pixels")
    # equal observations -> equal indices
    same = np.flatnonzero(np.diff(v) == 0)
    if same.size:
        R.count("tie_pairs", int(same.size))
        if np.any(g[same] != g[same + 1]):
            i = int(same[np.flatnonzero(g[same] != g[same + 1])[0]])
            R.violation("C08:equal-inputs", f"{where}: equal observations {v[i]} receive {int(g[i])} and {int(g[i + 1])}", case)
            return False
    # fitted pixel: nodata must not appear at a valid cell unless the index itself equals nodata legitimately
    dec = np.flatnonzero(np.diff(g) < 0)
    for i in dec:
        drop = int(g[i] - g[i + 1])
        with np.errstate(invalid="ignore"):
            gap = abs(1000 * spi[i + 1] - 1000 * spi[i]) if np.isfinite(spi[i]) and np.isfinite(spi[i + 1]) else np.inf
        band = float(O.tie_band(spi[i])) if np.isfinite(spi[i]) else 0.0
        if drop >= 2 or not (gap <= band + 1e-6):
            R.violation("C08:order", f"{where}: observation {v[i + 1]:.6g} > {v[i]:.6g} but index {int(g[i + 1])} < {int(g[i])} (definition: {1000 * spi[i + 1]:.3f} vs {1000 * spi[i]:.3f})", case)
            return False
    # saturation / sign: decided on the interval of admissible indices (C07's interval oracle: the fit statistic is
    # only known to the precision of the input dtype); pixels whose fit is not determined at that precision are
    # held to the order rules only
    iv = c07.s_interval(x, nodata, c0, c1, exp, str(np.asarray(x).dtype))
    if iv is None:
        R.count("fit_not_determined_order_only")
        return True
    with np.errstate(invalid="ignore", over="ignore"):
        lo_v = iv[0][valid][order]
        hi_v = iv[1][valid][order]
        val = 1000 * spi
    hi = lo_v >= 32767.5
    lo = hi_v <= -32767.5
    R.count("cells_saturating_high", int(hi.sum()))
    R.count("cells_saturating_low", int(lo.sum()))
    if np.any(g[hi] != 32767):
        i = int(np.flatnonzero(hi & (g != 32767))[0])
        R.violation("C08:saturation", f"{where}: observation {v[i]:.6g} has 1000*SPI = {val[i]} (beyond int16) but is stored as {int(g[i])}, expected 32767", case)
        return False
    if np.any((g[lo] != -32768) & (g[lo] != -32767)):
        i = int(np.flatnonzero(lo & (g != -32768) & (g != -32767))[0])
        R.violation("C08:saturation", f"{where}: observation {v[i]:.6g} has 1000*SPI = {val[i]} (beyond int16) but is stored as {int(g[i])}, expected -32768/-32767", case)
        return False
    mid = np.isfinite(lo_v) & np.isfinite(hi_v) & (np.abs(spi) > 7) & ~hi & ~lo
    R.count("cells_extreme_in_range", int(mid.sum()))
    if mid.any():
        tol = np.maximum(2.0, 1e-4 * np.maximum(np.abs(lo_v[mid]), np.abs(hi_v[mid])))
        gm = g[mid]
        okm = (gm >= np.clip(lo_v[mid] - tol, -32768, 32767)) & (gm <= np.clip(hi_v[mid] + tol, -32768, 32767))
        if np.any(~okm):
            j = int(np.flatnonzero(~okm)[0])
            i = int(np.flatnonzero(mid)[j])
            R.violation("C08:extreme-value", f"{where}: observation {v[i]:.6g}: stored {int(g[i])}, definition 1000*SPI in [{lo_v[i]:.2f}, {hi_v[i]:.2f}]", case)
            return False
    return True


def run_pixel(R, x, nodata, c0, c1, case_extra=None):
    """One pixel through the ungrouped kernel and (int16/float32) the grouped gufunc."""
    s = st()
    dtype = str(x.dtype)
    case = dict({"x": x, "nodata": nodata, "cal": [c0, c1], "dtype": dtype}, **(case_extra or {}))
    R.evaluation()
    outs = {}
    try:
        outs["gammastd_yxt"] = s.gammastd_yxt(x.reshape(1, 1, -1), nodata, c0, c1)[0, 0]
    except Exception as e:
        R.violation("C08:raises", f"gammastd_yxt raises {type(e).__name__}: {str(e)[:120]} (pixel dtype {dtype})", case)
        return None
    if dtype in ("int16", "float32"):
        try:
            outs["gammastd_grp"] = s.gammastd_grp(x, np.zeros(x.size, dtype=np.int16), 1, nodata, np.array([[c0, c1]], dtype=np.int16))
        except Exception as e:
            R.violation("C08:raises", f"gammastd_grp raises {type(e).__name__}: {str(e)[:120]}", case)
            return None
    # the float index behind the stored one is never NaN: NaN would be stored as an arbitrary integer (0)
    try:
        yf = s.gammastd(x, nodata, c0, c1)
        R.count("gammastd_nan_monitor")
        xf = np.asarray(x, dtype=np.float64)
        vcell = (xf != nodata) & (xf >= 0)
        if np.any(np.isnan(yf[vcell])):
            i = int(np.flatnonzero(vcell & np.isnan(yf))[0])
            R.violation("C08:nan-index", f"gammastd: observation {xf[i]:.9g} (cell {i}) gets a NaN index (fit parameters {s.gammafit(x[c0:c1][x[c0:c1] != nodata])})", case)
            return outs
    except Exception as e:
        R.violation("C08:raises", f"gammastd raises {type(e).__name__}: {str(e)[:120]}", case)
        return None
    res = None
    for where, got in outs.items():
        res = check_order_and_saturation(R, got, x, nodata, c0, c1, case, where)
        if res is False:
            return outs
    if "gammastd_grp" in outs and not np.array_equal(outs["gammastd_grp"], outs["gammastd_yxt"]):
        R.violation("C08:grouped-vs-ungrouped", "single-group gammastd_grp differs from gammastd_yxt on the same pixel", case)
    return outs


def expect_all_nodata(R, got, kind, nodata, case, where):
    R.count(f"bad_{kind}")
    if not np.all(got == nodata):
        R.violation("C08:unfittable", f"{where}: {kind} pixel must be nodata everywhere, got {got[:8].tolist()}", case)


def shard_pixels(spec, R):
    rng = np.random.default_rng([spec["seed"], 8, ["int16", "float32", "float64"].index(spec["dtype"]), spec["sub"]])
    dtype = spec["dtype"]
    for it in range(spec["cases"]):
        if R.out_of_time():
            R.count("stopped_on_budget")
            break
        n = int(rng.choice([3, 5, 8, 12, 24, 36, 72, 150]))
        if it % 4 == 3:
            kind = BAD[(it // 4) % len(BAD)]
            if kind in ("mostly_zero", "no_pos_in_window"):
                n = max(n, 24)  # > 90 % zeros with at least one positive value needs >= 11 cells
            nodata = float(rng.choice([-9999, -1, 32767]))
            x = gen_bad(rng, dtype, n, kind, nodata)
            c0, c1 = (0, max(2, n // 2)) if kind == "no_pos_in_window" else (0, n)
            R.case(True, dtype, kind, x, nodata)
            outs = run_pixel(R, x, nodata, c0, c1, {"bad_kind": kind})
            if outs is None:
                continue
            for where, got in outs.items():
                if kind == "constant":
                    R.count("bad_constant")
                    valid = (np.asarray(x, dtype=float) != nodata)
                    if np.unique(got[valid]).size > 1:
                        R.violation("C08:equal-inputs", f"{where}: constant pixel receives different indices {np.unique(got[valid])[:5].tolist()}", {"x": x, "nodata": nodata, "cal": [c0, c1], "dtype": dtype})
                elif kind == "single_valid":
                    R.count("bad_single_valid")  # not among the all-nodata outcomes the property lists: only "does not raise"
                else:
                    expect_all_nodata(R, got, kind, nodata, {"x": x, "nodata": nodata, "cal": [c0, c1], "dtype": dtype, "bad_kind": kind}, where)
        else:
            x, nodata, c0, c1 = gen_hostile(rng, dtype, n)
            exp = c07.expected(x, nodata, c0, c1)
            nontriv = exp is not None and bool(np.any(np.abs(exp["spi"][np.isfinite(exp["spi"]) | np.isinf(exp["spi"])]) > 3))
            R.case(nontriv, dtype, x, nodata, c0, c1)
            run_pixel(R, x, nodata, c0, c1)
            if R.want_sample() and nontriv:
                got = st().gammastd_yxt(x.reshape(1, 1, -1), nodata, c0, c1)[0, 0]
                R.sample({"dtype": dtype, "x": x[:10], "nodata": nodata, "cal": [c0, c1], "spi_int": got[:10], "oracle_1000spi": (1000 * exp["spi"][:10])})


def shard_cubes(spec, R):
    """Bad pixels next to ordinary ones: nothing raises, ordinary pixels are unaffected (ungrouped, grouped, accessor)."""
    import pandas as pd
    import xarray as xr
    import hdc.algo  # noqa

    s = st()
    rng = np.random.default_rng([spec["seed"], 8, 9, spec["sub"]])
    for it in range(spec["cases"]):
        if R.out_of_time():
            break
        dtype = ["int16", "float32", "float64"][it % 3]
        nt = int(rng.choice([24, 36, 48]))
        ny, nx = int(rng.integers(1, 4)), int(rng.integers(2, 5))
        nodata = float(rng.choice([-9999, -1, 32767]))
        kinds = []
        cube = np.empty((ny, nx, nt), dtype=dtype)
        for a in range(ny):
            for b in range(nx):
                if rng.random() < 0.45:
                    k = BAD[int(rng.integers(0, len(BAD)))]
                    cube[a, b] = gen_bad(rng, dtype, nt, k, nodata)
                else:
                    k = "ordinary"
                    x, nd, _c0, _c1 = gen_hostile(rng, dtype, nt)
                    cube[a, b] = np.where(x == nd, nodata, np.where(x == nodata, x + 1, x))
                kinds.append(k)
        c0, c1 = (0, nt) if it % 2 else (0, max(2, nt // 2))
        case = {"cube": cube, "nodata": nodata, "cal": [c0, c1], "kinds": kinds, "dtype": dtype}
        R.evaluation()
        R.case(True, "cube", cube, nodata, c0, c1)
        R.count("cubes")
        time = pd.date_range("2000-01-01", periods=nt, freq="MS")
        da = xr.DataArray(cube, dims=["y", "x", "time"], coords={"time": time}, attrs={"nodata": nodata})
        results = {}
        try:
            results["gammastd_yxt"] = s.gammastd_yxt(cube, nodata, c0, c1)
        except Exception as e:
            R.violation("C08:raises", f"gammastd_yxt raises {type(e).__name__} for a cube containing {sorted(set(kinds))}: {str(e)[:100]}", case)
        try:
            results["spi"] = da.hdc.algo.spi(calibration_begin=str(time[c0].date()), calibration_end=str(time[c1 - 1].date())).values
        except Exception as e:
            R.violation("C08:raises", f"accessor spi raises {type(e).__name__} for a cube containing {sorted(set(kinds))}: {str(e)[:100]}", case)
        if dtype in ("int16", "float32"):
            try:
                groups = np.zeros(nt, dtype=np.int16)
                results["gammastd_grp"] = s.gammastd_grp(cube, groups, 1, nodata, np.array([[c0, c1]], dtype=np.int16))
                grp2 = (np.arange(nt) % 2).astype(np.int16)
                results["spi_grouped"] = da.hdc.algo.spi(groups=[str(g) for g in grp2]).values
            except Exception as e:
                R.violation("C08:raises", f"grouped SPI raises {type(e).__name__} for a cube containing {sorted(set(kinds))}: {str(e)[:100]}", case)
        # ---- group-level degeneracy: uneven groups, and for some pixels one whole group is missing / zero / a single value
        if dtype in ("int16", "float32"):
            ng = int(rng.integers(2, 5))
            wts = rng.dirichlet(np.full(ng, 0.7))
            g3 = rng.choice(ng, nt, p=wts)
            g3[rng.choice(nt, 3 * ng, replace=False)] = np.repeat(np.arange(ng), 3)  # >= 3 steps per group (a one-step group is an invalid window: C09)
            if rng.random() < 0.5:
                g3 = np.sort(g3)
            cube3 = cube.copy()
            wiped = {}
            for a in range(ny):
                for b in range(nx):
                    if kinds[a * nx + b] == "ordinary" and rng.random() < 0.6:
                        gw = int(rng.integers(0, ng))
                        how = ["nodata", "zero", "single"][int(rng.integers(0, 3))]
                        sel = g3 == gw
                        if how == "nodata":
                            cube3[a, b][sel] = nodata
                        elif how == "zero":
                            cube3[a, b][sel] = 0 if nodata != 0 else 1
                        else:
                            keep = int(np.flatnonzero(sel)[0])
                            v = cube3[a, b][keep]
                            cube3[a, b][sel] = nodata
                            cube3[a, b][keep] = v
                        wiped[(a, b)] = (gw, how)
            da3 = xr.DataArray(cube3, dims=["y", "x", "time"], coords={"time": time}, attrs={"nodata": nodata})
            labels3 = [f"s{int(g)}" for g in g3]
            case3 = {"cube": cube3, "nodata": nodata, "groups": g3, "kinds": kinds, "dtype": dtype, "wiped": {f"{k[0]},{k[1]}": list(v) for k, v in wiped.items()}}
            try:
                kw3 = [{}, {"dtype": "float32"}, {"dtype": "int32"}, {}][int(rng.integers(0, 4))]  # the output dtype must reach nothing but the output
                R.count(f"grouped_output_dtype_{kw3.get('dtype', 'default')}")
                out3 = da3.hdc.algo.spi(groups=labels3, **kw3).values
            except Exception as e:
                out3 = None
                R.violation("C08:raises", f"grouped SPI raises {type(e).__name__} when a whole group of a pixel is {sorted(set(v[1] for v in wiped.values()))}: {str(e)[:100]}", case3)
            if out3 is not None:
                R.count("uneven_group_cubes")
                for a in range(ny):
                    for b in range(nx):
                        if kinds[a * nx + b] != "ordinary":
                            continue
                        for gidx in range(ng):
                            sel = g3 == gidx
                            xs = np.ascontiguousarray(cube3[a, b][sel])
                            R.count("group_isolation_checks")
                            if (a, b) in wiped and wiped[(a, b)][0] == gidx:
                                R.count(f"wiped_group_{wiped[(a, b)][1]}")
                            if not (xs != nodata).any():
                                alone = np.full(xs.size, nodata, dtype=np.int16)
                            else:
                                try:
                                    alone = s.gammastd_yxt(xs.reshape(1, 1, -1), nodata, 0, int(sel.sum()))[0, 0]
                                except Exception:
                                    continue
                            if not np.array_equal(out3[a, b][sel], alone):
                                R.violation("C08:isolation", f"grouped spi with uneven groups (sizes {np.bincount(g3).tolist()}): pixel ({a},{b}) group {gidx} differs from the SPI of that group taken alone"
                                            + (f" (group {wiped[(a, b)][0]} of this pixel is all-{wiped[(a, b)][1]})" if (a, b) in wiped else ""), case3)
                                break
        for where, out in results.items():
            if where == "spi_grouped":
                for a in range(ny):
                    for b in range(nx):
                        for gidx in (0, 1):
                            sel = grp2 == gidx
                            xs = np.ascontiguousarray(cube[a, b][sel])
                            alone = s.gammastd_yxt(xs.reshape(1, 1, -1), nodata, 0, int(sel.sum()))[0, 0] if (xs != nodata).any() else np.full(xs.size, nodata, dtype=np.int16)
                            R.count("isolation_pixels")
                            try:
                                ok = np.array_equal(out[a, b][sel], alone)
                            except Exception:
                                ok = False
                            if not ok and kinds[a * nx + b] == "ordinary":
                                # single-pixel reference may itself raise for bad pixels: only ordinary ones are compared
                                R.violation("C08:isolation", f"grouped spi: ordinary pixel ({a},{b}) group {gidx} differs from its stand-alone result", case)
                continue
            for a in range(ny):
                for b in range(nx):
                    k = kinds[a * nx + b]
                    got = out[a, b]
                    pc = {"x": cube[a, b], "nodata": nodata, "cal": [c0, c1], "dtype": dtype, "bad_kind": k}
                    if k == "ordinary":
                        R.count("isolation_pixels")
                        try:
                            alone = s.gammastd_yxt(np.ascontiguousarray(cube[a, b]).reshape(1, 1, -1), nodata, c0, c1)[0, 0]
                        except Exception:
                            continue
                        if not np.array_equal(got, alone):
                            R.violation("C08:isolation", f"{where}: ordinary pixel ({a},{b}) differs from its stand-alone result in a cube with {sorted(set(kinds))}", case)
                        check_order_and_saturation(R, got, cube[a, b], nodata, c0, c1, pc, where + " (cube)")
                    elif k in ("all_nodata", "all_negative", "all_zero", "mostly_zero", "no_pos_in_window"):
                        if k == "no_pos_in_window" and c1 != max(2, nt // 2):
                            continue
                        expect_all_nodata(R, got, k, nodata, pc, where + " (cube)")


def plan(tier, seed):
    q = tier == "quick"
    specs = []
    for dt in ("int16", "float32", "float64"):
        for i in range(4 if q else 10):
            specs.append({"kind": "pixels", "dtype": dt, "sub": i, "cases": 400 if q else 15000, "budget_s": 100 if q else 600})
    for i in range(4 if q else 8):
        specs.append({"kind": "cubes", "sub": i, "cases": 45 if q else 1500, "budget_s": 100 if q else 600})
    return specs


def run_shard(spec, R):
    if spec["kind"] == "cubes":
        return shard_cubes(spec, R)
    return shard_pixels(spec, R)


def finalize(agg, tier):
    c = agg["counters"]
    out = []
    for k in ("order_pixels", "cells_saturating_high", "cells_saturating_low", "tie_pairs", "cubes", "isolation_pixels") + tuple("bad_" + b for b in BAD):
        if c.get(k, 0) == 0:
            out.append(f"monitor/class {k} never observed")
    return out


def replay(case, R):
    if "cube" in case:
        R.inconclusive_because("cube witness: re-run the cube shard (pixel-level witnesses are written for pixel findings)")
        return
    x = np.asarray(case["x"]).astype(case["dtype"])
    nodata = float(case["nodata"])
    c0, c1 = int(case["cal"][0]), int(case["cal"][1])
    outs = run_pixel(R, x, nodata, c0, c1)
    k = case.get("bad_kind")
    if outs and k in ("all_nodata", "all_negative", "all_zero", "mostly_zero", "no_pos_in_window"):
        for where, got in outs.items():
            expect_all_nodata(R, got, k, nodata, case, where)
