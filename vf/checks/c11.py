"""C11 — dekads partition the calendar and behave as an ordered integer line.

Monitors: an oracle built only from ``calendar.monthrange`` observes every public attribute / operator of the
real ``Dekad`` class over the enumerated calendar; an ``icontract`` invariant sits on the class itself during a
contract shard; the ``.time.dekad`` accessor is compared element-wise with the scalar class and the oracle.
"""

from __future__ import annotations

import calendar
import datetime as dt

import numpy as np

PID = "C11"
RULE = (
    "dates: every calendar day of the year range of the tier (each also at 23:59:59.999999); dekads: every raw "
    "integer of those years; a case is one date or one dekad with all its attribute/operator observations; "
    "every case is non-trivial (finite space, partition by year => distinct by construction); accessor cases are "
    "time axes hashed by content"
)
ASSUMPTIONS = [
    "calendar.monthrange and datetime are correct (oracle base)",
    "end_date of 9999-12-d3 lies outside datetime and is expected to raise OverflowError (counted, not compared)",
]
EXHAUSTIVE = {"thorough": "all 3,652,059 dates 0001-01-01..9999-12-31 and all 359,964 dekads",
              "quick": "all 3,652,059 dates 0001-01-01..9999-12-31 and all 359,964 dekads"}
HARD_TIMEOUT_S = {"quick": 900, "thorough": 1800}

MAXRAW = 36 * 9999 + 35
MINRAW = 36 * 1
OFFSETS = [1, -1, 2, 3, -3, 35, 36, -36, 37, 360, -361, 3599, 359963, -359963, 0]


class InvBroken(Exception):
    pass


def plan(tier, seed):
    specs = []
    # 16 year blocks (the whole calendar in both tiers: it takes seconds)
    edges = np.linspace(1, 10000, 33).astype(int)
    for a, b in zip(edges[:-1], edges[1:]):
        specs.append({"kind": "calendar", "y0": int(a), "y1": int(b)})
    if tier == "quick":
        specs.append({"kind": "contract", "y0": 1890, "y1": 2110})
        specs.append({"kind": "contract", "y0": 1, "y1": 40})
        specs.append({"kind": "contract", "y0": 9960, "y1": 10000})
    else:  # the class invariant watches every dekad of the calendar
        for a, b in zip(edges[:-1:2], edges[2::2]):
            specs.append({"kind": "contract", "y0": int(a), "y1": int(b)})
    nacc = 3 if tier == "quick" else 12
    for i in range(nacc):
        specs.append({"kind": "accessor", "n": 60 if tier == "quick" else 200, "sub": i})
    return specs


# ------------------------------------------------------------------ oracle
def o_idx(day):
    return 1 if day <= 10 else (2 if day <= 20 else 3)


def o_raw(y, m, day):
    return 36 * y + 3 * (m - 1) + o_idx(day) - 1


def o_fields(raw):
    y, r = divmod(raw, 36)
    m, i = divmod(r, 3)
    return y, m + 1, i + 1


def o_bounds(y, m, idx):
    first = (1, 11, 21)[idx - 1]
    last = (10, 20, calendar.monthrange(y, m)[1])[idx - 1]
    return first, last


def check_dekad(Dekad, raw, R, viol):
    y, m, idx = o_fields(raw)
    d = Dekad(raw)
    first, last = o_bounds(y, m, idx)
    label = f"{y:04d}{m:02d}d{idx}"
    case = {"raw": raw}
    if (d.year, d.month, d.idx, d.raw, d.day, d.yidx) != (y, m, idx, raw, first, 3 * (m - 1) + idx):
        viol("C11:fields", f"Dekad({raw}) fields {(d.year, d.month, d.idx, d.raw, d.day, d.yidx)} != oracle {(y, m, idx, raw, first, 3*(m-1)+idx)}", case)
    if str(d) != label or repr(d) != f'Dekad("{label}")':
        viol("C11:label", f"str(Dekad({raw})) = {str(d)!r}, expected {label!r}", case)
    d2 = Dekad(label)
    if d2.raw != raw or not (d2 == d) or hash(d2) != hash(d) or len({d, d2, Dekad(raw)}) != 1:
        viol("C11:roundtrip-label/hash", f"Dekad({label!r}) raw={d2.raw} eq={d2 == d} hash_eq={hash(d2) == hash(d)}", case)
    if not (d == label and d == raw) or d != Dekad(raw):
        viol("C11:eq-coercion", f"Dekad({raw}) == its label / raw int failed", case)
    sd = d.start_date
    if sd != dt.datetime(y, m, first):
        viol("C11:start_date", f"start_date {sd} != {dt.datetime(y, m, first)}", case)
    if Dekad(sd).raw != raw or Dekad(sd.date()).raw != raw:
        viol("C11:roundtrip-date", f"Dekad(start_date).raw = {Dekad(sd).raw} != {raw}", case)
    if raw < MAXRAW:
        ed = d.end_date
        exp_ed = dt.datetime(y, m, last, 23, 59, 59, 999999)
        if ed != exp_ed:
            viol("C11:end_date", f"end_date {ed} != {exp_ed}", case)
        if d.date_range != (sd, ed):
            viol("C11:end_date", "date_range != (start_date, end_date)", case)
        if Dekad(ed).raw != raw:
            viol("C11:roundtrip-date", f"Dekad(end_date).raw = {Dekad(ed).raw} != {raw}", case)
        nxt = d + 1
        if ed + dt.timedelta(microseconds=1) != nxt.start_date or not (sd <= ed):
            viol("C11:abutment", f"end_date+1us {ed + dt.timedelta(microseconds=1)} != next start {nxt.start_date}", case)
        if d.ndays != last - first + 1:
            viol("C11:ndays", f"ndays {d.ndays} != {last - first + 1}", case)
        # order <=> chronology, on the neighbour
        if not (d < nxt and d <= nxt and nxt > d and nxt >= d and d != nxt and not (d > nxt) and not (d >= nxt)
                and not (nxt < d) and not (nxt <= d) and not (d == nxt) and d <= Dekad(raw) and d >= Dekad(raw)
                and not (d < Dekad(raw)) and not (d > Dekad(raw))):
            viol("C11:order", f"comparison operators inconsistent between Dekad({raw}) and its successor", case)
        if (d.start_date < nxt.start_date) != (d < nxt):
            viol("C11:order", "order does not follow chronology", case)
    else:
        try:
            d.end_date
            R.count("last_end_date_returned")
        except (OverflowError, ValueError):  # year 10000 is outside datetime
            R.count("last_end_date_overflow")
        for attr in ("ndays", "date_range", "end_date"):  # the derived bounds fail the same way; a failure changes nothing
            try:
                getattr(d, attr)
            except (OverflowError, ValueError):
                R.count("last_dekad_failed_calls")
    # a Dekad is a value: no operation - successful or failed - changes the object it was called on
    R.count("immutability_obs")
    try:
        now = (d.raw, str(d), hash(d), d.year, d.month, d.idx, d.start_date)
    except Exception as e:  # noqa: BLE001
        now = f"{type(e).__name__}: {e}"
    if now != (raw, label, hash(Dekad(raw)), y, m, idx, dt.datetime(y, m, first)):
        viol("C11:mutated", f"after reading its properties Dekad({raw}) is {now}, expected {(raw, label, y, m, idx)}", case)
    for n in OFFSETS:
        t = raw + n
        if not (MINRAW <= t <= MAXRAW):
            continue
        e = d + n
        ok = (e - d == n) and ((e - n) == d) and ((n + d) == e) and (e.raw == t) and (d - e == -n) and isinstance(e - n, Dekad)
        if not ok:
            viol("C11:arithmetic", f"translation by {n} from raw {raw}: (d+n)-d={e - d}, ((d+n)-n).raw={(e - n).raw}", case)
        if n != 0 and ((e > d) != (n > 0) or (e < d) != (n < 0) or (e >= d) != (n > 0) or (e <= d) != (n < 0)):
            viol("C11:order", f"order between d and d+{n} wrong", case)
        R.count("offset_obs")
    return d


def shard_calendar(spec, R, Dekad, do_dates=True):
    def viol(key, what, case):
        R.violation(key, what, case)

    y0, y1 = spec["y0"], spec["y1"]
    last_tick = dt.time(23, 59, 59, 999999)
    for y in range(y0, y1):
        per_year = 0
        for m in range(1, 13):
            ml = calendar.monthrange(y, m)[1]
            nd_sum = 0
            ds = []
            for idx in (1, 2, 3):
                raw = 36 * y + 3 * (m - 1) + idx - 1
                d = check_dekad(Dekad, raw, R, viol)
                ds.append(d)
                per_year += 1
                R.evaluation()
                if raw < MAXRAW:
                    nd_sum += d.ndays
            if (y, m) != (9999, 12) and nd_sum != ml:
                viol("C11:ndays", f"ndays of {y}-{m} sum to {nd_sum}, month has {ml}", {"y": y, "m": m})
            if not do_dates:
                continue
            # every day of the month, at 00:00 (date and datetime) and at the last microsecond
            bounds = []
            for d in ds:
                if d.raw < MAXRAW:
                    bounds.append((d.start_date, d.end_date))
                else:
                    bounds.append((d.start_date, dt.datetime.max))
            for day in range(1, ml + 1):
                exp = o_raw(y, m, day)
                da = dt.date(y, m, day)
                t0 = dt.datetime(y, m, day)
                t1 = dt.datetime.combine(da, last_tick)
                r0, r1, r2 = Dekad(da).raw, Dekad(t0).raw, Dekad(t1).raw
                if r0 != exp or r1 != exp or r2 != exp:
                    viol("C11:membership", f"{da}: Dekad(date).raw={r0}, Dekad(00:00).raw={r1}, Dekad(23:59:59.999999).raw={r2}, oracle {exp}", {"date": da.isoformat()})
                # exactly one of the month's three dekads contains the instant
                inside = [k for k, (s, e) in enumerate(bounds) if s <= t0 and t1 <= e]
                if inside != [exp % 3]:
                    viol("C11:partition", f"{da} lies inside dekads {inside} of its month, expected only {[exp % 3]}", {"date": da.isoformat()})
                R.evaluation()
        if per_year != 36:
            viol("C11:fields", f"year {y} has {per_year} dekads", {"y": y})
        R.count("years")
    ndays = (dt.date(y1 - 1, 12, 31) - dt.date(y0, 1, 1)).days + 1
    if do_dates:
        R.enumerated(ndays)
        R.count("dates", ndays)
        R.enumerated(36 * (y1 - y0))
        R.count("dekads", 36 * (y1 - y0))
    else:
        R.count("dekads_under_contract", 36 * (y1 - y0))


# ------------------------------------------------------------------ contract shard
def install_invariant(Dekad, R):
    import icontract

    def dekad_repr_is_consistent(self):
        R.count("invariant_evaluations")
        k = self._dkd
        if isinstance(k, Dekad):  # Dekad(Dekad(..)) is done by the repository's own test; not forbidden
            k = k._dkd
        return (
            isinstance(k, int)
            and 1 <= self.month <= 12
            and 1 <= self.idx <= 3
            and 1 <= self.yidx <= 36
            and self.raw == 36 * self.year + 3 * (self.month - 1) + self.idx - 1
        )

    return icontract.invariant(dekad_repr_is_consistent, error=lambda self: InvBroken(f"invariant broken for _dkd={self._dkd!r}"))(Dekad)


def shard_contract(spec, R, Dekad):
    D = install_invariant(Dekad, R)
    try:
        shard_calendar(spec, R, D, do_dates=False)
        rng = np.random.default_rng([spec["seed"], 11, spec["y0"]])
        for _ in range(2000):
            y = int(rng.integers(spec["y0"], spec["y1"]))
            m = int(rng.integers(1, 13))
            day = int(rng.integers(1, calendar.monthrange(y, m)[1] + 1))
            t = dt.datetime(y, m, day, int(rng.integers(0, 24)), int(rng.integers(0, 60)), int(rng.integers(0, 60)), int(rng.integers(0, 10**6)))
            d = D(t)
            if d.raw != o_raw(y, m, day) or not (d.start_date <= t) or (d.raw < MAXRAW and not (t <= d.end_date)):
                R.violation("C11:membership", f"instant {t} not inside Dekad {d}", {"instant": t.isoformat()})
            R.evaluation()
            R.case(True, "instant", t.isoformat())
    except InvBroken as e:
        R.violation("C11:invariant", str(e), {"y0": spec["y0"], "y1": spec["y1"]})
    if R.counters.get("invariant_evaluations", 0) == 0:
        R.inconclusive_because("icontract invariant on Dekad was never evaluated")


# ------------------------------------------------------------------ accessor shard
def shard_accessor(spec, R, Dekad):
    import pandas as pd
    import xarray as xr
    import hdc.algo  # noqa: F401  (registers accessors)

    rng = np.random.default_rng([spec["seed"], 11, 7, spec["sub"]])
    lo = np.datetime64("1678-01-01T00:00:00", "ns").astype("int64")
    hi = np.datetime64("2261-12-31T23:59:59", "ns").astype("int64")
    for it in range(spec["n"]):
        kind = it % 5
        if kind == 0:  # random instants
            n = int(rng.integers(1, 40))
            t = np.sort(rng.integers(lo, hi, n)).astype("datetime64[ns]")
        elif kind == 1:  # month boundaries +- a day at random years
            y = int(rng.integers(1678, 2261))
            days = []
            for m in range(1, 13):
                ml = calendar.monthrange(y, m)[1]
                for dd in (1, 10, 11, 20, 21, ml):
                    days.append(np.datetime64(f"{y:04d}-{m:02d}-{dd:02d}", "ns"))
            t = np.array(days)
        elif kind == 2:  # a dekadal axis
            y = int(rng.integers(1678, 2255))
            n = int(rng.integers(2, 80))
            t = np.array([np.datetime64(Dekad(36 * y + k).start_date, "ns") for k in range(n)])
        elif kind == 3:  # last microsecond-ish of dekads (ns resolution)
            y = int(rng.integers(1678, 2261))
            t = np.array([np.datetime64(Dekad(36 * y + k).end_date, "ns") for k in range(36)])
        else:  # scalar (0-d) time
            t = np.array(rng.integers(lo, hi, 1)).astype("datetime64[ns]")
        if kind == 4:
            x = xr.DataArray(t[0], coords={"time": t[0]})
            tt = t[:1]
        else:
            x = xr.DataArray(np.arange(t.size), dims=["time"], coords={"time": t})
            tt = t
        pyd = [pd.Timestamp(v).to_pydatetime() for v in tt]
        acc = x.time.dekad
        got = {
            "idx": np.asarray(acc.idx.values).ravel(),
            "yidx": np.asarray(acc.yidx.values).ravel(),
            "ndays": np.asarray(acc.ndays.values).ravel(),
            "label": np.asarray(acc.label.values).ravel(),
            "start_date": np.asarray(acc.start_date.values).ravel(),
            "end_date": np.asarray(acc.end_date.values).ravel(),
            "raw": np.asarray(acc.raw.values).ravel(),
            "linspace": np.asarray(acc.linspace.values).ravel(),
            "year": np.asarray(acc.year.values).ravel(),
            "month": np.asarray(acc.month.values).ravel(),
        }
        case = {"time": tt}
        for j, p in enumerate(pyd):
            d = Dekad(p)
            y, m, idx = o_fields(o_raw(p.year, p.month, p.day))
            first, last = o_bounds(y, m, idx)
            exp = {
                "idx": idx,
                "yidx": 3 * (m - 1) + idx,
                "ndays": last - first + 1,
                "label": f"{y:04d}{m:02d}d{idx}",
                "start_date": np.datetime64(dt.datetime(y, m, first), "ns"),
                "end_date": np.datetime64(dt.datetime(y, m, last, 23, 59, 59, 999999), "ns"),
                "raw": 36 * y + 3 * (m - 1) + idx - 1,
                "linspace": 3 * (m - 1) + idx - 1,
                "year": y,
                "month": m,
            }
            scal = {"idx": d.idx, "yidx": d.yidx, "ndays": d.ndays, "label": str(d), "raw": d.raw,
                    "start_date": np.datetime64(d.start_date, "ns"), "end_date": np.datetime64(d.end_date, "ns"),
                    "linspace": d.yidx - 1, "year": d.year, "month": d.month}
            for k in exp:
                g = got[k][j]
                if k in ("start_date", "end_date"):
                    g = np.datetime64(g, "ns")
                if not (g == exp[k]) or not (g == scal[k]):
                    R.violation("C11:accessor", f".time.dekad.{k}[{j}] = {g!r}, scalar class {scal[k]!r}, oracle {exp[k]!r} for {p}", case)
            R.count("accessor_elements")
        R.evaluation()
        R.case(True, "axis", tt)
        if R.want_sample() and kind in (0, 4):
            R.sample({"accessor_axis": tt[:4], "idx": got["idx"][:4], "label": got["label"][:4]})


def run_shard(spec, R):
    from hdc.algo.dekad import Dekad

    if spec["kind"] == "calendar":
        shard_calendar(spec, R, Dekad)
        if spec["y0"] <= 2024 < spec["y1"]:
            d = Dekad(dt.date(2024, 2, 29))
            R.sample({"date": "2024-02-29", "raw": d.raw, "label": str(d), "start": d.start_date, "end": d.end_date, "ndays": d.ndays})
        d = Dekad(36 * spec["y0"] + 5)
        R.sample({"raw": d.raw, "label": str(d), "start": d.start_date, "end": d.end_date, "ndays": d.ndays, "plus37": str(d + 37)})
    elif spec["kind"] == "contract":
        shard_contract(spec, R, Dekad)
    elif spec["kind"] == "accessor":
        shard_accessor(spec, R, Dekad)


def finalize(agg, tier):
    out = []
    c = agg["counters"]
    if c.get("dates", 0) != 3652059:
        out.append(f"enumerated {c.get('dates', 0)} dates, expected 3652059")
    if c.get("dekads", 0) < 359964:
        out.append(f"enumerated {c.get('dekads', 0)} dekads, expected >= 359964")
    if c.get("invariant_evaluations", 0) == 0:
        out.append("icontract invariant never evaluated")
    if c.get("accessor_elements", 0) == 0:
        out.append("accessor never compared")
    if c.get("last_end_date_overflow", 0) + c.get("last_end_date_returned", 0) == 0:
        out.append("last dekad never visited")
    return out


def replay(case, R):
    from hdc.algo.dekad import Dekad

    if "raw" in case:
        check_dekad(Dekad, int(case["raw"]), R, R.violation)
        R.evaluation()
    elif "date" in case:
        d = dt.date.fromisoformat(case["date"])
        shard_calendar({"y0": d.year, "y1": d.year + 1}, R, Dekad)
    elif "time" in case:
        R.inconclusive_because("accessor replay: re-run the accessor shard")
    else:
        shard_calendar({"y0": int(case.get("y", case.get("y0", 2000))), "y1": int(case.get("y", case.get("y0", 2000))) + 1}, R, Dekad)
