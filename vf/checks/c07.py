"""C07 — SPI equals the gamma-MLE / zero-mixture / normal-quantile definition.

Boundary monitors on gammafit / gammastd / gammastd_yxt / gammastd_grp / DataArray.hdc.algo.spi compare every valid
cell with an independent SciPy evaluation of the definition (mpmath cross-check in the thorough tier).
"""

from __future__ import annotations

import importlib
import math

import numpy as np

from .. import harness as H

from ..oracles import spi as O

PID = "C07"
RULE = (
    "case = one pixel series (dtype int16 / float32 / float64) with its calibration window; gamma samples with shape "
    "0.05..500 and scale 0.1..1e4, length 3..400, zero share 0..0.9 (incl. exactly 0.9), ties (integer rounding), nodata "
    "anywhere, a few negative cells, full and sub-windows (>= 2 steps, >= 2 distinct positive values). Non-trivial: >= 3 "
    "valid values compared after excluding |SPI| > 7. distinct = SHA-1 of (dtype, series, nodata, window)."
)
ASSUMPTIONS = [
    "SciPy digamma/gammainc/ndtri and optimize.brentq are the oracle base; 2% of the thorough-tier pixels are re-evaluated with mpmath (40 digits)",
    "tie band: +-1 only where |frac(1000*SPI) - 0.5| <= max(1e-6, 1000*8*2^-53/phi(SPI)); |SPI| > 7 is left to C08",
    "float32 inputs: single-precision logarithms in the fit => interval oracle over s0 +- 2^-23*max(1,max|log x|)",
]
HARD_TIMEOUT_S = {"quick": 900, "thorough": 3600}

_ST = {}


def stats_mod():
    if "m" not in _ST:
        _ST["m"] = importlib.import_module("hdc.algo.ops.stats")
    return _ST["m"]


def gen_pixel(rng, dtype, n=None):
    n = int(n or rng.choice([3, 4, 5, 8, 12, 24, 36, 72, 150, 400]))
    shape = float(10 ** rng.uniform(math.log10(0.05), math.log10(500)))
    if dtype == "int16":
        scale = float(10 ** rng.uniform(-1, math.log10(max(0.2, min(1e4, 20000.0 / shape)))))
    else:
        scale = float(10 ** rng.uniform(-1, 4))
    x = rng.gamma(shape, scale, n)
    if dtype == "int16":
        x = np.minimum(np.round(x), 32000)
    elif rng.random() < 0.3:
        x = np.round(x, int(rng.integers(0, 3)))  # ties in float data
    nodata = float(rng.choice([-9999, -1, 32767, 0]))  # must be representable in the int16 output
    x = np.where(x == nodata, x - 1, x)
    # zero inflation
    mode = rng.integers(0, 5)
    if mode == 1:
        x[rng.random(n) < rng.uniform(0, 0.9)] = 0
    elif mode == 2 and n >= 10:  # exactly 90 % zeros among the valid cells
        k = n - max(1, n // 10) if n % 10 == 0 else int(0.9 * n)
        x[rng.choice(n, k, replace=False)] = 0
    # nodata and negatives
    if rng.random() < 0.5:
        x[rng.random(n) < rng.uniform(0, 0.3)] = nodata
    if rng.random() < 0.1:
        idx = rng.choice(n, max(1, n // 20), replace=False)
        x[idx] = -np.abs(rng.integers(2, 50, idx.size))
        x = np.where(x == nodata, nodata - 1 if nodata < 0 else x, x)
    # calibration window
    if rng.random() < 0.5 or n < 5:
        c0, c1 = 0, n
    else:
        c0 = int(rng.integers(0, n - 2))
        c1 = int(rng.integers(c0 + 2, n + 1))
    return x.astype(dtype), nodata, c0, c1, shape, scale


def expected(x, nodata, c0, c1):
    """Oracle for one pixel: None when the property does not cover it (unfittable)."""
    xf = np.asarray(x, dtype=np.float64)
    p0 = O.p_zero(xf, nodata)
    if p0 is None or p0 > 0.9:
        return None
    cal = xf[c0:c1]
    cal = cal[cal != nodata]  # a nodata cell is not an observation, whatever the sign of the placeholder
    pos = cal[cal > 0]
    if np.unique(pos).size < 2:
        return None
    ft = O.fit(cal)
    if ft is None:
        return None
    a, b, s = ft
    return {"alpha": a, "beta": b, "s": s, "p0": p0, "spi": O.spi_values(xf, nodata, a, b, p0)}


def compare_int(R, got, x, nodata, exp, case, where, f32_interval):
    """got: int16 output of the kernel for one pixel."""
    xf = np.asarray(x, dtype=np.float64)
    spi = exp["spi"]
    ok = (xf != nodata) & (xf >= 0)
    # cells that must be nodata
    if np.any(got[~ok] != nodata):
        i = int(np.flatnonzero(~ok & (got != nodata))[0])
        R.violation("C07:nodata-cell", f"{where}: cell {i} (value {xf[i]}) must be nodata, got {int(got[i])}", case)
        return
    cmp = ok & np.isfinite(spi) & (np.abs(spi) <= 7)
    R.count("cells_beyond_7_skipped", int(np.sum(ok & ~cmp)))
    if cmp.sum() == 0:
        return
    val = 1000 * spi[cmp]
    g = got[cmp].astype(np.int64)
    lo, hi = f32_interval
    band = O.tie_band(spi[cmp])
    slack = 1 if str(np.asarray(x).dtype) == "float32" else 0
    gmin = np.ceil(lo[cmp] - band - 0.5) - slack
    gmax = np.floor(hi[cmp] + band + 0.5) + slack
    bad = (g < gmin) | (g > gmax)
    R.count("cells_off_point_oracle_tolerated", int(np.sum((g != np.round(val).astype(np.int64)) & ~bad)))
    R.note_max("max_interval_width_1000spi", float(np.max(hi[cmp] - lo[cmp])))
    R.count("cells_compared", int(cmp.sum()))
    if np.any(bad):
        j = int(np.flatnonzero(bad)[0])
        i = int(np.flatnonzero(cmp)[j])
        R.violation("C07:value", f"{where}: cell {i} x={xf[i]:.6g}: SPI*1000 = {int(g[j])}, definition gives {val[j]:.4f} (alpha={exp['alpha']:.6g}, beta={exp['beta']:.6g}, p0={exp['p0']:.4f})", case)
        return False
    return True


def s_interval(x, nodata, c0, c1, exp, dtype):
    """Interval of 1000*SPI over the admissible perturbations of the fit statistic s.

    float32 input: the compiled fit takes single-precision logarithms (<= 1 ulp32 each);
    int16 / float64 input: rounding of log(mean) - mean(log) (a few ulp64 of the logs) and Brent's x tolerance.
    alpha is ill-conditioned in s for near-constant data (d alpha / alpha = -ds / s), so this matters there.
    """
    xf = np.asarray(x, dtype=np.float64)
    cal = xf[c0:c1]
    cal = cal[cal != nodata]
    pos = cal[cal > 0]
    m = float(np.mean(pos))
    lg = max(1.0, float(np.max(np.abs(np.log(pos)))))
    d = 2.0 ** -23 * lg if dtype == "float32" else 64 * 2.0 ** -53 * lg + exp["s"] * (4e-12 / exp["alpha"] + 1e-15)
    if d >= exp["s"] / 4:
        return None  # the admissible perturbation of s is comparable to s itself: the fit is not determined at this precision
    vals = []
    for ds in (-d, -d / 2, 0.0, d / 2, d):
        a = O.alpha_from_s(exp["s"] + ds)
        if a is None:
            return None
        vals.append(1000 * O.spi_values(xf, nodata, a, m / a, exp["p0"]))
    vals = np.array(vals)
    with np.errstate(invalid="ignore"):
        return np.nanmin(vals, axis=0), np.nanmax(vals, axis=0)


def check_pixel(R, x, nodata, c0, c1, meta, mp_check=False):
    st = stats_mod()
    dtype = str(x.dtype)
    case = {"x": x, "nodata": nodata, "cal": [c0, c1], "dtype": dtype}
    exp = expected(x, nodata, c0, c1)
    R.evaluation()
    if exp is None:
        R.count("unfittable_skipped")
        R.case(False, dtype, x, nodata, c0, c1)
        return
    n_cmp = int(np.sum(np.isfinite(exp["spi"]) & (np.abs(exp["spi"]) <= 7)))
    R.case(n_cmp >= 3, dtype, x, nodata, c0, c1)
    R.count(f"pixels_{dtype}")
    interval = s_interval(x, nodata, c0, c1, exp, dtype)
    if interval is None:
        R.count(f"fit_not_determined_at_input_precision_{dtype}")
        return
    # --- gammastd_yxt
    got = st.gammastd_yxt(x.reshape(1, 1, -1), nodata, c0, c1)[0, 0]
    if got.dtype != np.int16:
        R.violation("C07:dtype", f"gammastd_yxt returns {got.dtype}", case)
        return
    if compare_int(R, got, x, nodata, exp, case, "gammastd_yxt", interval) is False:
        return
    # --- gammafit / gammastd (njit, float result)
    if dtype != "float32":
        xc = x[c0:c1]
        a, b = st.gammafit(xc[xc != nodata])
        R.count("gammafit_calls")
        # the root is ill-conditioned in s for near-constant data: d(alpha)/alpha = -ds/s, ds ~ rounding of log(mean) - mean(log)
        pos = np.asarray(xc[xc != nodata], dtype=np.float64)
        pos = pos[pos > 0]
        rtol = max(1e-9, 64 * 2.0 ** -53 * max(1.0, float(np.max(np.abs(np.log(pos))))) / exp["s"])
        R.note_max("max_alpha_rtol_used", rtol)
        if not (abs(a - exp["alpha"]) <= rtol * exp["alpha"] and abs(b - exp["beta"]) <= rtol * exp["beta"]):
            R.violation("C07:fit", f"gammafit: (alpha, beta) = ({a:.12g}, {b:.12g}), ML fit ({exp['alpha']:.12g}, {exp['beta']:.12g})", case)
            return
        y = st.gammastd(x, nodata, c0, c1)
        xf = np.asarray(x, dtype=np.float64)
        ok = (xf != nodata) & (xf >= 0) & np.isfinite(exp["spi"]) & (np.abs(exp["spi"]) <= 7)
        R.count("gammastd_calls")
        if ok.any():
            dev = np.abs(1000 * y[ok] - 1000 * exp["spi"][ok])
            if np.any(~(dev <= O.tie_band(exp["spi"][ok]) + 1e-6 + (interval[1][ok] - interval[0][ok]))):  # NaN-safe
                i = int(np.flatnonzero(ok)[int(np.argmax(dev))])
                R.violation("C07:value", f"gammastd: cell {i} x={xf[i]:.6g}: {y[i]:.9f}, definition {exp['spi'][i]:.9f}", case)
                return
    # --- grouped gufunc with one group equals the same thing
    if dtype in ("int16", "float32"):
        groups = np.zeros(x.size, dtype=np.int16)
        cal = np.array([[c0, c1]], dtype=np.int16)
        gg = st.gammastd_grp(x, groups, 1, nodata, cal)
        R.count("gammastd_grp_calls")
        if compare_int(R, gg, x, nodata, exp, case, "gammastd_grp", interval) is False:
            return
    if mp_check:
        xw = np.asarray(x, dtype=np.float64)[c0:c1]
        try:
            r = O.spi_mp(np.asarray(x, dtype=np.float64), nodata, xw[xw != nodata])
        except Exception:  # mpmath's root finder / series did not converge for this pixel: no independent reference
            R.count("mpmath_no_reference")
            r = None
        if r is not None:
            a_mp, b_mp, p0_mp, vals = r
            R.count("mpmath_pixels")
            if abs(float(a_mp) - exp["alpha"]) > 1e-8 * exp["alpha"]:
                R.inconclusive_because(f"oracle self-check: SciPy alpha {exp['alpha']} vs mpmath {float(a_mp)}")
            for i, v in enumerate(vals):
                if v is None or not np.isfinite(exp["spi"][i]) or abs(exp["spi"][i]) > 7:
                    continue
                if abs(float(v) - exp["spi"][i]) * 1000 > float(O.tie_band(exp["spi"][i])) + 1e-6 + float(interval[1][i] - interval[0][i]):
                    R.inconclusive_because(f"oracle self-check: SciPy SPI {exp['spi'][i]} vs mpmath {float(v)} (x={x[i]})")
                    break
    if R.want_sample() and n_cmp >= 3:
        R.sample({"dtype": dtype, "x": x[:12], "nodata": nodata, "cal": [c0, c1], "alpha": exp["alpha"], "beta": exp["beta"], "p0": exp["p0"], "spi_int": got[:12], **meta})


def shard_cube(spec, R):
    """Multi-pixel cubes through gammastd_yxt and the accessor (dims in any order, grouped and ungrouped)."""
    import pandas as pd
    import xarray as xr
    import hdc.algo  # noqa

    st = stats_mod()
    rng = np.random.default_rng([spec["seed"], 7, 5, spec["sub"]])
    for it in range(spec["cases"]):
        if R.out_of_time():
            break
        dtype = ["int16", "float32", "float64"][it % 3]
        ny, nx, nt = int(rng.integers(1, 4)), int(rng.integers(1, 4)), int(rng.choice([6, 12, 36, 72]))
        pix = [gen_pixel(rng, dtype, nt) for _ in range(ny * nx)]
        nodata = pix[0][1]
        cube = np.empty((ny, nx, nt), dtype=dtype)
        for k, (x, nd, *_r) in enumerate(pix):
            xx = np.where(x == nd, nodata, x)
            cube[k // nx, k % nx] = xx
        c0 = int(rng.integers(0, nt - 2))
        c1 = int(rng.integers(c0 + 2, nt + 1))
        if H.pick(it, 3, 2) == 0:
            c0, c1 = 0, nt
        time = pd.date_range("2000-01-01", periods=nt, freq="MS")
        da = xr.DataArray(cube, dims=["y", "x", "time"], coords={"time": time}, attrs={"nodata": nodata})
        order = [("y", "x", "time"), ("time", "y", "x"), ("y", "time", "x")][H.pick(it, 1, 3)]
        # the placeholder reaches spi() by attribute, by an explicit argument, or by an argument overriding another attribute
        how = H.pick(it, 2, 3)
        kwn = {}
        if how == 1:
            kwn["nodata"] = nodata
            da.attrs.pop("nodata")
        elif how == 2:
            kwn["nodata"] = nodata
            da.attrs["nodata"] = -7777.0
        R.count(f"accessor_nodata_source_{how}")
        res = da.transpose(*order).hdc.algo.spi(calibration_begin=str(time[c0].date()), calibration_end=str(time[c1 - 1].date()), **kwn)
        R.evaluation()
        out = res.transpose("y", "x", "time").values
        direct = st.gammastd_yxt(cube, nodata, c0, c1)
        case = {"cube": cube, "nodata": nodata, "cal": [c0, c1], "order": list(order), "dtype": dtype}
        if res.dtype != np.int16 or not np.array_equal(out, direct):
            R.violation("C07:accessor", f"spi(order={order}) differs from gammastd_yxt on the same cube/window (dtype {res.dtype})", case)
            continue
        for a in range(ny):
            for b in range(nx):
                x = cube[a, b]
                exp = expected(x, nodata, c0, c1)
                R.count("accessor_pixels")
                if exp is None:
                    continue
                interval = s_interval(x, nodata, c0, c1, exp, dtype)
                if interval is None:
                    continue
                compare_int(R, out[a, b], x, nodata, exp, dict(case, pixel=[a, b]), "accessor spi", interval)


def plan(tier, seed):
    q = tier == "quick"
    specs = []
    for dt in ("int16", "float32", "float64"):
        for i in range(4 if q else 10):
            specs.append({"kind": "pixels", "dtype": dt, "sub": i, "cases": 260 if q else 10000, "budget_s": 100 if q else 600, "mp": 0 if q else 50})
    for i in range(4 if q else 8):
        specs.append({"kind": "cube", "sub": i, "cases": 40 if q else 1500, "budget_s": 100 if q else 600})
    return specs


def run_shard(spec, R):
    if spec["kind"] == "cube":
        return shard_cube(spec, R)
    rng = np.random.default_rng([spec["seed"], 7, ["int16", "float32", "float64"].index(spec["dtype"]), spec["sub"]])
    # compile outside the budget
    x, nd, c0, c1, *_ = gen_pixel(rng, spec["dtype"], 12)
    stats_mod().gammastd_yxt(x.reshape(1, 1, -1), nd, 0, 12)
    R.t0 = __import__("time").time()
    for it in range(spec["cases"]):
        if R.out_of_time():
            R.count("stopped_on_budget")
            break
        x, nodata, c0, c1, shape, scale = gen_pixel(rng, spec["dtype"])
        check_pixel(R, x, nodata, c0, c1, {"gen_shape": shape, "gen_scale": scale}, mp_check=(spec["mp"] and it % spec["mp"] == 0))


def finalize(agg, tier):
    c = agg["counters"]
    out = []
    for k in ("pixels_int16", "pixels_float32", "pixels_float64", "cells_compared", "gammafit_calls", "gammastd_calls", "gammastd_grp_calls", "accessor_pixels"):
        if c.get(k, 0) == 0:
            out.append(f"monitor/class {k} never observed")
    if tier == "thorough" and c.get("mpmath_pixels", 0) == 0:
        out.append("mpmath cross-check never ran")
    return out


def replay(case, R):
    if "cube" in case:
        R.inconclusive_because("cube witness: pixel-level witness carries the same data; re-run the cube shard")
        return
    x = np.asarray(case["x"]).astype(case["dtype"])
    check_pixel(R, x, float(case["nodata"]), int(case["cal"][0]), int(case["cal"][1]), {})
