"""C01 — the Whittaker core returns the exact penalised least-squares solution.

Monitors
* identity: the *code object* of ws2d runs on exact Fractions (``zeros`` -> Fraction object arrays); the residual
  (W + lam D'D) z - W y, assembled from the definition of second differences, must be exactly zero everywhere.
* float64: compiled ws2d(y, lam, w) against float(z*) -- max|z - z*| / max|z*| <= 1e-6 for lam in [1e-6, 1e8];
  an exceedance is classified by kappa_2(W + lam D'D) * 2^-53 (>= 1e-7: inherent to float64, known finding).
* health: pivots d[i] of the LDL' factorisation (tapped from the interpreted float run) are positive.
"""

from __future__ import annotations

import importlib
import itertools
import math
from fractions import Fraction

import numpy as np

from .. import shim
from ..oracles import whittaker as W

PID = "C01"
RULE = (
    "case = (n, y, w, lam); generated per class (all 0/1 weight patterns with >=2 ones for n=4..10; leading/trailing/"
    "interior zero runs; exactly two positive weights; fractional weights; y constant/linear/alternating/spike/random/"
    "12-decade floats; lam log-uniform and end points). Non-trivial: some weight is 0 or fractional, or n <= 6, or "
    "lam <= 1e-3 or lam >= 1e5. distinct = distinct SHA-1 of (y, w, lam)."
)
ASSUMPTIONS = [
    "Python Fraction arithmetic is exact; every float input is an exact rational",
    "the interpreted code object is the code users run compiled (tied together by the float64 comparison here and by C13)",
    "kappa is computed with numpy.linalg.eigvalsh on the dense matrix (n <= 400)",
]
HARD_TIMEOUT_S = {"quick": 900, "thorough": 3600}
EXHAUSTIVE = {"quick": "0/1 weight patterns with >= 2 ones for every n in 4..10 (1976 patterns), one (y, lam) draw each",
              "thorough": "0/1 weight patterns with >= 2 ones for every n in 4..10 (1976 patterns), 8 (y, lam) draws each"}

LAMS_EDGE = [1e-6, 1e8, 1e-3, 1e5, 10.0, 10 ** -0.5, 1e-5, 1.0, 1e2, 31.6227766]
LAMS_OUT = [1e-12, 1e-9, 1e10, 1e12]  # identity only (property: all lam > 0)


def ws2d_compiled():
    return importlib.import_module("hdc.algo.ops.ws2d").ws2d


_FR = {}


def ws2d_fraction():
    if "f" not in _FR:
        _FR["f"] = shim.interp(ws2d_compiled(), zeros=shim.frac_zeros)
        _FR["g"] = shim.interp(ws2d_compiled())
    return _FR["f"]


def gen_y(rng, n, kind):
    if kind == "int":
        return rng.integers(-10000, 10001, n).astype(float)
    if kind == "const":
        return np.full(n, float(rng.integers(-10000, 10001)))
    if kind == "linear":
        a, b = rng.integers(-50, 51), rng.integers(-5000, 5001)
        return (a * np.arange(n) + b).astype(float)
    if kind == "alt":
        return np.where(np.arange(n) % 2 == 0, 10000.0, -10000.0)
    if kind == "spike":
        y = np.zeros(n)
        y[rng.integers(0, n)] = 10000.0
        return y
    if kind == "decades":
        return rng.standard_normal(n) * 10.0 ** rng.integers(-6, 7, n)
    raise ValueError(kind)


YK = ["int", "int", "int", "const", "linear", "alt", "spike", "decades"]


def gen_w(rng, n, kind):
    w = np.ones(n)
    if kind == "ones":
        return w
    if kind == "lead":
        k = int(rng.integers(1, n - 1))
        w[:k] = 0
    elif kind == "trail":
        k = int(rng.integers(1, n - 1))
        w[n - k:] = 0
    elif kind == "interior":
        a = int(rng.integers(1, n - 1))
        b = int(rng.integers(a + 1, n))
        if n - (b - a) >= 2:
            w[a:b] = 0
    elif kind == "two":
        w[:] = 0
        mode = rng.integers(0, 4)
        if mode == 0:
            i = int(rng.integers(0, n - 1))
            w[[i, i + 1]] = 1
        elif mode == 1:
            w[[0, n - 1]] = 1
        elif mode == 2:
            w[[0, 1]] = 1
        else:
            i, j = sorted(rng.choice(n, 2, replace=False))
            w[[i, j]] = 1
    elif kind == "random":
        w = (rng.random(n) < rng.uniform(0.2, 0.9)).astype(float)
        if w.sum() < 2:
            w[rng.choice(n, 2, replace=False)] = 1
    elif kind == "frac":
        base = (rng.random(n) < 0.8).astype(float)
        if base.sum() < 2:
            base[:2] = 1
        fac = rng.choice([0.05, 0.95, 1e-3, 1e3, 0.5, 0.01, 0.99], n)
        w = base * fac
    return w


WK = ["ones", "lead", "trail", "interior", "two", "random", "frac"]


def gen_lam(rng, allow_out):
    r = rng.random()
    if r < 0.25:
        return float(rng.choice(LAMS_EDGE))
    if allow_out and r < 0.32:
        return float(rng.choice(LAMS_OUT))
    return float(10.0 ** rng.uniform(-6, 8))


def nontrivial(n, w, lam):
    return bool(np.any(w == 0) or np.any((w != 0) & (w != 1)) or n <= 6 or lam <= 1e-3 or lam >= 1e5)


def check_case(R, y, w, lam, do_exact=True, do_float=True, do_health=False):
    """One (y, w, lam): exact identity, float64 agreement, pivot health."""
    n = y.size
    case = {"y": y, "w": w, "lam": lam}
    R.evaluation()
    R.case(nontrivial(n, w, lam), y, w, lam)
    yF = np.array(W.to_frac(y), dtype=object)
    wF = np.array(W.to_frac(w), dtype=object)
    lF = Fraction(float(lam))
    zF = ws2d_fraction()(yF, lF, wF)
    zF = list(zF)
    if do_exact:
        r = W.residual_exact(zF, list(yF), list(wF), lF)
        bad = [i for i, v in enumerate(r) if v != 0]
        R.count("identity_checked")
        if bad:
            R.violation("C01:identity", f"exact-rational run of ws2d is not the PLS solution: residual != 0 at rows {bad[:6]} (n={n}, lam={lam})", case)
            return
    if do_float and 1e-6 <= lam <= 1e8:
        z = ws2d_compiled()(y.astype(float), float(lam), w.astype(float))
        # the same weights carried by another dtype that holds them exactly (a boolean mask, 0/1 integers, float32):
        # the solution is a property of the numbers, not of the container they arrive in
        for wdt in (np.bool_, np.int64, np.uint8, np.float32, np.int16):
            wv = w.astype(wdt)
            if not np.array_equal(wv.astype(np.float64), w):
                continue
            R.count(f"weight_dtype_{np.dtype(wdt).name}")
            try:
                z2 = np.asarray(ws2d_compiled()(y.astype(float), float(lam), wv), dtype=np.float64)
            except Exception as e:
                R.violation("C01:weight-dtype", f"ws2d raises {type(e).__name__}: {str(e)[:100]} for weights given as {np.dtype(wdt).name} (n={n}, lam={lam})", dict(case, weight_dtype=np.dtype(wdt).name))
                return
            d2 = float(np.max(np.abs(z2 - z)))
            if not (d2 <= 1e-9 * max(1.0, float(np.max(np.abs(z))))):
                R.violation("C01:weight-dtype", f"ws2d gives a different curve for the same weights stored as {np.dtype(wdt).name}: max |diff| {d2:.3g} (n={n}, lam={lam})", dict(case, weight_dtype=np.dtype(wdt).name))
                return
        zs = np.array([float(v) for v in zF])
        den = float(np.max(np.abs(zs)))
        err = float(np.max(np.abs(z - zs)))
        rel = err / den if den > 0 else err
        R.count("float_checked")
        if not np.all(np.isfinite(z)) or rel > 1e-6:
            kap = W.cond2(n, w, lam)
            keps = kap * 2.0 ** -53
            R.note_max("max_kappa_eps_among_exceedances", keps)
            R.note_max("neg_min_kappa_eps_among_exceedances", -keps)
            if keps >= 1e-7 and np.all(np.isfinite(z)):
                R.violation("C01:ill-conditioned", f"float64 rel. error {rel:.3g} > 1e-6 with kappa*eps = {keps:.3g} (n={n}, lam={lam:.4g}, positive weights={int(np.sum(w > 0))})", case)
            else:
                R.violation("C01:float64-error", f"float64 rel. error {rel:.3g} > 1e-6 although kappa*eps = {keps:.3g} < 1e-7 (n={n}, lam={lam:.4g})", case)
        else:
            R.note_max("max_rel_err_within_bound", rel)
    if do_health and 1e-6 <= lam <= 1e8:  # float64 claims are made for this lambda range only
        g = _FR["g"]
        with shim.Tap(g, at_return=["d"]) as tap:
            g(y.astype(float), float(lam), w.astype(float))
        d = tap.ret[0]["d"]
        R.count("pivot_vectors_tapped")
        if not np.all(d > 0):
            keps = W.cond2(n, w, lam) * 2.0 ** -53
            if keps >= 1e-7:  # cancellation in the float64 factorisation of an ill-conditioned system: the known finding
                R.violation("C01:ill-conditioned", f"non-positive float64 pivot d[{int(np.argmin(d))}]={float(d.min())} with kappa*eps = {keps:.3g} (n={n}, lam={lam:.4g})", case)
            else:
                R.violation("C01:pivot", f"non-positive pivot d[{int(np.argmin(d))}]={float(d.min())} (n={n}, lam={lam}, kappa*eps {keps:.3g})", case)
    if R.want_sample():
        R.sample({"n": n, "lam": lam, "w": w[:12], "y": y[:12], "z_exact_first_as_float": float(zF[0])})


def _mp_zeros(shape, dtype=None):
    import mpmath

    a = np.empty(shape, dtype=object)
    a[...] = mpmath.mpf(0)
    return a


def check_long(R, y, w, lam):
    """Long axes: the code object runs on 120-digit floats (mpmath) instead of Fractions - exact arithmetic is only
    affordable while the algorithm *is* the exact elimination (anything else makes the fractions grow without bound) -
    and the residual of the normal equations, assembled from the definition in the same arithmetic, must vanish to 80
    digits; the compiled float64 result is then held to that solution."""
    import mpmath

    mpmath.mp.dps = 120
    n = y.size
    case = {"y": y, "w": w, "lam": lam, "arithmetic": "mpmath-120"}
    R.evaluation()
    R.case(nontrivial(n, w, lam), y, w, lam)
    if "m" not in _FR:
        _FR["m"] = shim.interp(ws2d_compiled(), zeros=_mp_zeros)
    yM = np.array([mpmath.mpf(float(v)) for v in y], dtype=object)
    wM = np.array([mpmath.mpf(float(v)) for v in w], dtype=object)
    lM = mpmath.mpf(float(lam))
    zM = list(_FR["m"](yM, lM, wM))
    r = W.residual_exact(zM, list(yM), list(wM), lM)
    scale = max(abs(a * b) for a, b in zip(wM, yM)) + 16 * lM * max(abs(v) for v in zM) + 1
    worst = max(abs(v) for v in r) / scale
    R.count("identity_checked_120_digits")
    R.note_max("long_axis_worst_relative_residual_log10", float(mpmath.log10(worst)) if worst > 0 else -999.0)
    if not (worst <= mpmath.mpf(10) ** -80):
        i = max(range(n), key=lambda k: abs(r[k]))
        R.violation("C01:identity", f"run of ws2d in 120-digit arithmetic is not the PLS solution: relative residual {float(worst):.3g} at row {i} (n={n}, lam={lam})", case)
        return
    if 1e-6 <= lam <= 1e8:
        z = ws2d_compiled()(y.astype(float), float(lam), w.astype(float))
        zs = np.array([float(v) for v in zM])
        den = float(np.max(np.abs(zs)))
        rel = float(np.max(np.abs(z - zs))) / den if den > 0 else float(np.max(np.abs(z - zs)))
        R.count("float_checked")
        if not np.all(np.isfinite(z)) or rel > 1e-6:
            keps = W.cond2(n, w, lam) * 2.0 ** -53
            if keps >= 1e-7 and np.all(np.isfinite(z)):
                R.violation("C01:ill-conditioned", f"float64 rel. error {rel:.3g} > 1e-6 with kappa*eps = {keps:.3g} (n={n}, lam={lam:.4g}, positive weights={int(np.sum(w > 0))})", case)
            else:
                R.violation("C01:float64-error", f"float64 rel. error {rel:.3g} > 1e-6 although kappa*eps = {keps:.3g} < 1e-7 (n={n}, lam={lam:.4g})", case)
        else:
            R.note_max("max_rel_err_within_bound", rel)


def plan(tier, seed):
    specs = []
    reps = 1 if tier == "quick" else 8
    for n in range(4, 11):
        nchunks = 1 if n < 9 else (2 if n == 9 else 4)
        for c in range(nchunks):
            specs.append({"kind": "patterns", "n": n, "chunk": c, "nchunks": nchunks, "reps": reps})
    ns = 16 if tier == "quick" else 32
    for i in range(ns):
        specs.append({"kind": "structured", "sub": i, "cases": 110 if tier == "quick" else 1500, "nmax": 64 if tier == "quick" else 120,
                      "budget_s": 100 if tier == "quick" else 600})
    nf = 16 if tier == "quick" else 32
    for i in range(nf):
        specs.append({"kind": "float", "sub": i, "cases": 12 if tier == "quick" else 300, "nmax": 400, "exact_all": tier != "quick",
                      "budget_s": 100 if tier == "quick" else 600})
    # long axes: anything gated on the length of the series, on long runs of equal weights or on a slowly converging recursion
    for i in range(8 if tier == "quick" else 32):
        specs.append({"kind": "long", "sub": i, "cases": 3 if tier == "quick" else 40, "budget_s": 100 if tier == "quick" else 600})
    return specs


def run_shard(spec, R):
    rng = np.random.default_rng([spec["seed"], 1, hash(spec["kind"]) % 1000 if False else {"patterns": 1, "structured": 2, "float": 3, "long": 4}[spec["kind"]], spec.get("sub", spec.get("n", 0)), spec.get("chunk", 0)])
    ws2d_fraction()
    if spec["kind"] == "patterns":
        n = spec["n"]
        pats = [p for p in itertools.product((0.0, 1.0), repeat=n) if sum(p) >= 2]
        pats = pats[spec["chunk"]::spec["nchunks"]]
        for p in pats:
            w = np.array(p)
            for _ in range(spec["reps"]):
                y = gen_y(rng, n, YK[int(rng.integers(0, len(YK)))])
                lam = gen_lam(rng, True)
                check_case(R, y, w, lam, do_health=True)
            R.count("patterns")
    elif spec["kind"] == "structured":
        for it in range(spec["cases"]):
            if R.out_of_time():
                R.count("stopped_on_budget")
                break
            n = int(rng.choice([4, 5, 6, 7, 8, 10, 12, 16, 24, 32, 48, spec["nmax"]]))
            w = gen_w(rng, n, WK[it % len(WK)])
            y = gen_y(rng, n, YK[int(rng.integers(0, len(YK)))])
            lam = gen_lam(rng, True)
            check_case(R, y, w, lam, do_health=(it % 3 == 0))
            R.count("class_w_" + WK[it % len(WK)])
    elif spec["kind"] == "long":
        for it in range(spec["cases"]):
            if R.out_of_time():
                R.count("stopped_on_budget")
                break
            k = spec["sub"] * spec["cases"] + it
            n = int([512, 600, 777, 1000, 1440, 2000, 3000, 900, 513, 1200, 2500, 4000][k % 12])
            wk = k % 4
            w = np.ones(n)
            if wk == 1:  # a few early gaps, then a long gap-free tail
                w[rng.choice(40, 6, replace=False)] = 0
            elif wk == 2:  # one fractional weight throughout
                w[:] = [0.05, 0.5, 0.95][k % 3]
            elif wk == 3:  # gappy
                w[rng.random(n) < 0.3] = 0
            y = gen_y(rng, n, YK[int(rng.integers(0, 3))])
            lam = [1e8, 1e7, 1e6, 3e7, float(10.0 ** rng.uniform(-6, 8)), 1e8, 1e2, 1e8][(k // 4) % 8]
            check_long(R, y, w, lam)
            R.count("long_axis_cases")
            R.note_max("longest_axis_120_digits", n)
    elif spec["kind"] == "float":
        for it in range(spec["cases"]):
            if R.out_of_time():
                R.count("stopped_on_budget")
                break
            n = int(rng.choice([36, 64, 100, 150, 200, 300, spec["nmax"]]))
            w = gen_w(rng, n, WK[it % len(WK)])
            y = gen_y(rng, n, YK[int(rng.integers(0, 3))])
            lam = float(10.0 ** rng.uniform(-6, 8)) if it % 4 else float(rng.choice([1e-6, 1e8, 1e7, 1e-5]))
            check_case(R, y, w, lam, do_exact=(n <= 150 or (spec.get("exact_all") and it % 3 == 0)), do_float=True)
            R.count("float_large_n")


def finalize(agg, tier):
    c = agg["counters"]
    out = []
    if c.get("patterns", 0) != 1976:
        out.append(f"only {c.get('patterns', 0)} of 1976 weight patterns were executed")
    for k in ("identity_checked", "float_checked", "pivot_vectors_tapped"):
        if c.get(k, 0) == 0:
            out.append(f"monitor {k} never evaluated")
    return out


def replay(case, R):
    ws2d_fraction()
    check_case(R, np.asarray(case["y"], dtype=float), np.asarray(case["w"], dtype=float), float(case["lam"]), do_health=True)
