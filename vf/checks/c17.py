"""C17 — rolling sum and grouped mean reduce exactly the valid cells.

Exhaustive: every series over {nodata, a, b, c} of length 1..8 x every window 1..length through the real gufunc (one
broadcast call per window), for each signature dtype and three nodata encodings; grouped mean over every labelling
with k <= 3 groups, length <= 6.  Pair monitor: re-encoding the placeholder must only echo the new placeholder.
"""

from __future__ import annotations

import importlib
import itertools

import numpy as np

from .. import harness as H

PID = "C17"
RULE = (
    "case = (series, window) for rolling_sum, (series, labelling) for mean_grp. Exhaustive: all 87380 series over a 4-symbol "
    "alphabet {nodata, 3 small integers} of length 1..8 x all windows, dtypes int16/int64/float32, nodata in {-9999, 0, 7}; "
    "mean_grp: all series of length <= 6 x all labellings with groups 0..k-1, k <= 3. Random: length <= 400, every signature "
    "dtype. Non-trivial: the series holds both nodata and data. Exhaustive cases are distinct by construction."
)
ASSUMPTIONS = [
    "a window mixing nodata and valid cells may yield nodata or the sum of the valid cells (the strongest statement compatible with the repository's own test)",
    "mean_grp is compared at float32 resolution (1 ulp of the stored value)",
]
HARD_TIMEOUT_S = {"quick": 900, "thorough": 2400}
EXHAUSTIVE = {"quick": "rolling_sum: all series over a 4-symbol alphabet of length 1..7 x all windows x 3 dtypes x 3 nodata encodings; mean_grp: length <= 5, k <= 3",
              "thorough": "rolling_sum: all series over a 4-symbol alphabet of length 1..8 x all windows x 3 dtypes x 3 nodata encodings; mean_grp: length <= 6, k <= 3"}

ALPHABETS = {-9999.0: [-9999, 0, 1, 5], 0.0: [0, 1, 5, 7], 7.0: [7, 0, 1, 5]}


def st():
    return importlib.import_module("hdc.algo.ops.stats")


def all_series(L, alphabet):
    idx = np.array(list(itertools.product(range(4), repeat=L)), dtype=np.int64)
    return np.asarray(alphabet)[idx]


def check_rolling_block(R, a, w, nodata, dtype, where="rolling_sum"):
    """a: (N, L) series; one broadcast call for window w.  Returns the number of violations recorded."""
    s = st()
    x = a.astype(dtype)
    got = np.asarray(s.rolling_sum(x, w, nodata)).astype(np.float64)
    N, L = a.shape
    af = a.astype(np.float64)
    valid = af != nodata
    nodata_in = nodata
    nodata = float(np.float32(nodata))  # the float32 output echoes the placeholder as its nearest float32
    R.evaluation(N)
    nviol = 0
    if w > 1 and np.any(got[:, : w - 1] != nodata):
        i = int(np.argwhere(got[:, : w - 1] != nodata)[0][0])
        R.violation("C17:incomplete-window", f"{where}: position before the first complete window is {got[i, :w-1].tolist()} instead of nodata (series {a[i].tolist()}, window {w})", {"series": a[i], "window": w, "nodata": nodata_in, "dtype": dtype})
        nviol += 1
    for i in range(w - 1, L):
        cells = af[:, i - w + 1:i + 1]
        v = valid[:, i - w + 1:i + 1]
        nv = v.sum(axis=1)
        sv = np.where(v, cells, 0).sum(axis=1)
        g = got[:, i]
        full = nv == w
        none = nv == 0
        mixed = ~full & ~none
        bad = (full & (g != sv)) | (none & (g != nodata)) | (mixed & (g != sv) & (g != nodata))
        R.count("positions_full", int(full.sum()))
        R.count("positions_all_nodata", int(none.sum()))
        R.count("positions_mixed", int(mixed.sum()))
        if np.any(bad):
            j = int(np.flatnonzero(bad)[0])
            kind = "mixed window (nodata amalgamated with data)" if mixed[j] else ("complete window" if full[j] else "all-nodata window")
            key = "C17:rolling-mixed" if mixed[j] else "C17:rolling-sum"
            R.violation(key, f"{where}: series {a[j].tolist()} window {w} position {i}: got {g[j]}, {kind}: valid sum {sv[j]}, nodata {nodata}", {"series": a[j], "window": w, "nodata": nodata_in, "dtype": dtype})
            nviol += 1
    return nviol


def shard_rolling_exhaustive(spec, R):
    for L in spec["lengths"]:
        for nodata, alpha in ALPHABETS.items():
            a = all_series(L, alpha)
            for dtype in ("int16", "int64", "float32"):
                for w in range(1, L + 1):
                    check_rolling_block(R, a, w, nodata, dtype)
                    R.count("exhaustive_series_window_pairs", a.shape[0])
            mixedrows = int(np.sum((a == nodata).any(axis=1) & (a != nodata).any(axis=1)))
            R.enumerated(mixedrows * L)
        # placeholder re-encoding (pair monitor): -9999 <-> 7 encodings of the same data/mask
        a1 = all_series(L, ALPHABETS[-9999.0])
        a2 = np.where(a1 == -9999, 7, a1)
        ok_rows = ~np.any(a1 == 7, axis=1)
        s = st()
        for w in range(1, L + 1):
            g1 = np.asarray(s.rolling_sum(a1.astype("int64"), w, -9999.0))
            g2 = np.asarray(s.rolling_sum(a2.astype("int64"), w, 7.0))
            g1m = np.where(g1 == -9999, 7, g1)
            R.count("placeholder_pairs", int(a1.shape[0]))
            bad = np.any(g1m != g2, axis=1) & ok_rows
            # a valid sum may coincide with the new placeholder (e.g. 1+1+5 = 7): compare only where neither is a sentinel echo
            if np.any(bad):
                rows = np.flatnonzero(bad)
                for j in rows[:50]:
                    d = np.flatnonzero(g1m[j] != g2[j])
                    if all((g1[j, t] == 7 and g2[j, t] == 7) for t in d):
                        continue
                    R.violation("C17:placeholder", f"rolling_sum depends on the nodata value: series {a1[j].tolist()} window {w}: {g1[j].tolist()} (nodata -9999) vs {g2[j].tolist()} (same cells encoded as 7)", {"series": a1[j], "window": w, "nodata": -9999.0, "dtype": "int64"})
                    break
    R.sample({"series": [5, -9999, 1], "window": 2, "nodata": -9999, "rolling_sum_int16": np.asarray(st().rolling_sum(np.array([5, -9999, 1], dtype="int16"), 2, -9999.0))})


def o_mean_grp(series, labels, k, nodata):
    out = np.empty(len(series), dtype=np.float64)
    for g in range(k):
        mem = [v for v, l in zip(series, labels) if l == g and v != nodata]
        val = (sum(mem) / len(mem)) if mem else nodata
        for i, l in enumerate(labels):
            if l == g:
                out[i] = val
    return out


def shard_meangrp_exhaustive(spec, R):
    s = st()
    for L in spec["lengths"]:
        for nodata, alpha in ALPHABETS.items():
            a = all_series(L, alpha)
            for k in (1, 2, 3):
                for labels in itertools.product(range(k), repeat=L):
                    lab = np.array(labels, dtype=np.int16)
                    for dtype in (("float32", "int16", "int32", "int64") if (k + L) % 2 == 0 else ("int16", "float32")):
                        got = np.asarray(s.mean_grp(a.astype(dtype), lab, k, nodata)).astype(np.float64)
                        R.evaluation(a.shape[0])
                        R.count("meangrp_series_labelling_pairs", a.shape[0])
                        # vectorised reference
                        exp = np.empty(a.shape, dtype=np.float64)
                        for g in range(k):
                            cols = lab == g
                            if not cols.any():
                                continue
                            sub = a[:, cols].astype(np.float64)
                            v = sub != nodata
                            n = v.sum(axis=1)
                            sm = np.where(v, sub, 0).sum(axis=1)
                            with np.errstate(invalid="ignore", divide="ignore"):
                                m = np.where(n > 0, sm / np.maximum(n, 1), nodata)
                            exp[:, cols] = m[:, None]
                        exp32 = exp.astype(np.float32).astype(np.float64)
                        bad = ~(np.abs(got - exp32) <= np.spacing(np.abs(exp32).astype(np.float32)).astype(np.float64))  # NaN-safe
                        if np.any(bad):
                            j = int(np.argwhere(bad)[0][0])
                            if not np.allclose(o_mean_grp(a[j].tolist(), list(labels), k, nodata), exp[j]):
                                raise AssertionError("reference models disagree")
                            R.violation("C17:mean-grp", f"mean_grp({a[j].tolist()}, groups {list(labels)}, nodata {nodata}, {dtype}) = {got[j].tolist()}, reference {exp[j].tolist()}", {"series": a[j], "labels": lab, "k": k, "nodata": nodata, "dtype": dtype})
            R.enumerated(int(np.sum((a == nodata).any(axis=1) & (a != nodata).any(axis=1))))
    R.sample({"series": [5, 0, 1, 7], "labels": [0, 1, 0, 1], "nodata": 0, "mean_grp": np.asarray(s.mean_grp(np.array([5, 0, 1, 7], dtype="int16"), np.array([0, 1, 0, 1], dtype="int16"), 2, 0.0))})


def shard_random(spec, R):
    import pandas as pd
    import xarray as xr
    import hdc.algo  # noqa

    s = st()
    rng = np.random.default_rng([spec["seed"], 17, spec["sub"]])
    for it in range(spec["cases"]):
        if R.out_of_time():
            break
        n = int(rng.choice([1, 2, 9, 36, 120, 400]))
        nodata = float(rng.choice([-9999, 0, 255, -1]))
        dtype = ["int16", "int64", "float32"][it % 3]
        x = rng.integers(0, 300, n).astype(np.float64)
        x = np.where(x == nodata, x + 1, x)
        x[rng.random(n) < rng.uniform(0, 0.6)] = nodata
        w = int(rng.integers(1, n + 1))
        R.case(bool((x == nodata).any() and (x != nodata).any()), "roll", dtype, x, w, nodata)
        check_rolling_block(R, x.reshape(1, -1), w, nodata, dtype)
        R.count("random_rolling")
        # grouped mean, all four signature dtypes
        k = int(rng.integers(1, min(n, 12) + 1))
        lab = rng.integers(0, k, n).astype(np.int16)
        gdt = ["float32", "int16", "int32", "int64"][H.pick(it, 1, 4)]
        got = np.asarray(s.mean_grp(x.astype(gdt), lab, k, nodata)).astype(np.float64)
        exp = o_mean_grp(x.tolist(), lab.tolist(), k, nodata)
        exp32 = exp.astype(np.float32).astype(np.float64)
        R.evaluation()
        R.count("random_meangrp")
        if np.any(~(np.abs(got - exp32) <= 2 * np.spacing(np.abs(exp32).astype(np.float32)).astype(np.float64))):
            R.violation("C17:mean-grp", f"mean_grp random series ({gdt}, k={k}, nodata {nodata}) differs from the reference", {"series": x, "labels": lab, "k": k, "nodata": nodata, "dtype": gdt})
        # accessors
        if it % 5 == 0 and n >= 2:
            ny, nx = 2, 2
            adt = ["int16", "int64", "float32", "int32"][H.pick(it // 5, 2, 4)]
            if adt in ("int32", "int64") and H.pick(it // 5, 5, 2):
                # a placeholder with no exact float32 image (INT32_MAX): "cell == nodata" must be decided on the stored integers
                nodata = float([2147483647, -2147483647, 99999999][H.pick(it // 5, 6, 3)])
                R.count("accessor_placeholder_not_float32_exact")
            cube = rng.integers(0, 300, (ny, nx, n)).astype(np.float64)
            cube = np.where(cube == nodata, cube + 1, cube)
            cube[rng.random(cube.shape) < 0.35] = nodata
            cube[0, 0, :] = nodata
            da = xr.DataArray(cube.astype(adt), dims=["y", "x", "time"], coords={"time": pd.date_range("2000-01-01", periods=n, freq="D")}, attrs={"nodata": nodata})
            order = [("y", "x", "time"), ("time", "y", "x")][H.pick(it // 5, 3, 2)]
            # how the placeholder reaches the accessor: attribute only / explicit argument equal to the attribute /
            # explicit argument overriding a different attribute / explicit argument without any attribute
            how = H.pick(it // 5, 4, 4)
            R.count(f"accessor_nodata_source_{how}")
            if how == 2:
                da.attrs["nodata"] = -7777.0 if nodata != -7777.0 else -1234.0
            elif how == 3:
                da.attrs.pop("nodata")
            res = da.transpose(*order).hdc.rolling.sum(w) if how == 0 else da.transpose(*order).hdc.rolling.sum(window_size=w, nodata=nodata)
            out = res.transpose("y", "x", "time").values
            R.count("accessor_rolling")
            if out.shape[-1] != n - w + 1:
                R.violation("C17:accessor-trim", f"rolling.sum(window {w}) on {n} steps returns {out.shape[-1]} steps, expected {n - w + 1}", {"cube": cube, "window": w, "nodata": nodata})
            else:
                direct = np.asarray(s.rolling_sum(cube.astype(adt), w, nodata))[..., w - 1:]
                if not np.array_equal(out, direct) or not np.array_equal(res.time.values, da.time.values[w - 1:]):
                    R.violation("C17:accessor", "rolling.sum differs from the kernel on the trimmed positions (values or time stamps)", {"cube": cube, "window": w, "nodata": nodata})
                for a in range(ny):
                    for b in range(nx):
                        check_rolling_block(R, cube[a, b].reshape(1, -1), w, nodata, adt, where="accessor rolling.sum")
            # the dimension argument: roll along "x" of a (time, y, x) cube instead of time
            if how in (1, 2) and n >= 2:
                cub2 = np.moveaxis(cube, -1, 0)  # (time=n, y, x)
                cub2 = np.ascontiguousarray(np.swapaxes(cub2, 0, 2))  # (x, y, time=n) -> treat last axis name as "x"
                dx = xr.DataArray(np.moveaxis(cube, -1, 0).transpose(1, 2, 0).astype(adt), dims=["time", "y", "x"], attrs={"nodata": nodata})
                rx = dx.hdc.rolling.sum(w, dimension="x", nodata=nodata)
                R.count("accessor_rolling_other_dimension")
                direct_x = np.asarray(s.rolling_sum(np.asarray(dx.values), w, nodata))[..., w - 1:]
                if rx.dims[-1] != "x" or rx.sizes["x"] != n - w + 1 or not np.array_equal(rx.values, direct_x):
                    R.violation("C17:accessor", f"rolling.sum(dimension='x', window {w}) differs from the kernel applied along x", {"cube": cube, "window": w, "nodata": nodata})
            lab2 = (np.arange(n) % min(n, 3)).astype(np.int16)
            r2 = da.transpose(*order).hdc.algo.mean_grp(lab2) if how == 0 else da.transpose(*order).hdc.algo.mean_grp(lab2, nodata=nodata)
            o2 = r2.transpose("y", "x", "time").values.astype(np.float64)
            R.count("accessor_meangrp")
            for a in range(ny):
                for b in range(nx):
                    e = o_mean_grp(cube[a, b].tolist(), lab2.tolist(), int(lab2.max()) + 1, nodata).astype(np.float32).astype(np.float64)
                    if np.any(~(np.abs(o2[a, b] - e) <= 2 * np.spacing(np.abs(e).astype(np.float32)).astype(np.float64))):
                        R.violation("C17:mean-grp", "accessor mean_grp differs from the reference", {"series": cube[a, b], "labels": lab2, "k": int(lab2.max()) + 1, "nodata": nodata, "dtype": adt})


def plan(tier, seed):
    q = tier == "quick"
    specs = [{"kind": "roll_ex", "lengths": [1, 2, 3, 4, 5]}, {"kind": "roll_ex", "lengths": [6]}, {"kind": "roll_ex", "lengths": [7]}]
    if not q:
        specs.append({"kind": "roll_ex", "lengths": [8]})
    specs += [{"kind": "mg_ex", "lengths": [1, 2, 3, 4]}, {"kind": "mg_ex", "lengths": [5]}]
    if not q:
        specs.append({"kind": "mg_ex", "lengths": [6]})
    for i in range(6 if q else 16):
        specs.append({"kind": "random", "sub": i, "cases": 150 if q else 8000, "budget_s": 100 if q else 600})
    return specs


def run_shard(spec, R):
    {"roll_ex": shard_rolling_exhaustive, "mg_ex": shard_meangrp_exhaustive, "random": shard_random}[spec["kind"]](spec, R)


def finalize(agg, tier):
    c = agg["counters"]
    out = []
    for k in ("positions_full", "positions_all_nodata", "positions_mixed", "placeholder_pairs", "meangrp_series_labelling_pairs", "random_rolling",
              "random_meangrp", "accessor_rolling", "accessor_meangrp", "accessor_placeholder_not_float32_exact"):
        if c.get(k, 0) == 0:
            out.append(f"monitor/class {k} never observed")
    return out


def replay(case, R):
    s = st()
    if "window" in case and "series" in case:
        check_rolling_block(R, np.asarray(case["series"], dtype=np.float64).reshape(1, -1), int(case["window"]), float(case["nodata"]), case.get("dtype", "int64"))
    elif "labels" in case:
        x = np.asarray(case["series"], dtype=np.float64)
        lab = np.asarray(case["labels"], dtype=np.int16)
        got = np.asarray(s.mean_grp(x.astype(case["dtype"]), lab, int(case["k"]), float(case["nodata"]))).astype(np.float64)
        e = o_mean_grp(x.tolist(), lab.tolist(), int(case["k"]), float(case["nodata"])).astype(np.float32).astype(np.float64)
        R.evaluation()
        if np.any(~(np.abs(got - e) <= 2 * np.spacing(np.abs(e).astype(np.float32)).astype(np.float64))):
            R.violation("C17:mean-grp", "mean_grp differs from the reference", case)
    else:
        R.inconclusive_because("cube witness: re-run the random shard")
