"""C16 — zonal mean is the exact mean and count of valid pixels per zone.

Reference model: exact integer sums (np.bincount in float64 on integer data is exact below 2^53; math.fsum for float
data) and integer counts.  Boundary monitors on do_mean and DataArray.hdc.zonal.mean; permutation pairs; large zones
(10^5 .. 2.5*10^7 pixels) to expose accumulator precision / counter saturation.
"""

from __future__ import annotations

import importlib
import math

import numpy as np

from .. import harness as H

PID = "C16"
RULE = (
    "case = (raster cube, zone raster); 1..1000 zones incl. empty ones and zone-nodata pixels, nodata/NaN share 0..100 %, "
    "int16 / float32 / float64 data, output float32 / float64; large-zone classes with 10^5, 10^6, 1.7*10^7 (and thorough: "
    "2.5*10^7) pixels in one zone (values alternating 1000/1001 and random 2000..9000); pixel permutations. Non-trivial: "
    ">= 1 zone holds nodata pixels or >= 10^5 pixels. distinct = SHA-1 of (data, zones) (large rasters: of their generator parameters)."
)
ASSUMPTIONS = [
    "tolerance |mean - exact| <= 4*eps(out dtype)*|exact| + n*2^-53*mean|x| (worst-case round-off of any float64 accumulator; zero for integer data)",
    "counts are compared exactly when representable in the output dtype, else to the nearest representable value",
    "NaN pixels are presented through the accessor (which maps them to nodata); the kernel is given nodata-encoded data",
]
HARD_TIMEOUT_S = {"quick": 900, "thorough": 2400}


def do_mean():
    return importlib.import_module("hdc.algo.ops.zonal").do_mean


def reference(pixels, zones, num_zones, nodata, z_nodata):
    """Exact (sum, count) per (t, zone) -> mean (float64), count (int)."""
    t = pixels.shape[0]
    z = zones.ravel().astype(np.int64)
    zok = z != z_nodata
    means = np.full((t, num_zones), np.nan)
    counts = np.zeros((t, num_zones), dtype=np.int64)
    abssum = np.zeros((t, num_zones))
    for ti in range(t):
        p = pixels[ti].ravel()
        ok = zok & (p != nodata)
        if p.dtype.kind == "f":
            ok &= ~np.isnan(p)
        zz = z[ok]
        pv = p[ok].astype(np.float64)
        c = np.bincount(zz, minlength=num_zones)[:num_zones]
        if p.dtype.kind in "iu" or pv.size > 200000:
            sm = np.bincount(zz, weights=pv, minlength=num_zones)[:num_zones]
        else:
            sm = np.array([math.fsum(pv[zz == k]) for k in range(num_zones)])
        ab = np.bincount(zz, weights=np.abs(pv), minlength=num_zones)[:num_zones]
        with np.errstate(invalid="ignore", divide="ignore"):
            means[ti] = np.where(c > 0, sm / np.maximum(c, 1), np.nan)
        counts[ti] = c
        abssum[ti] = ab
    return means, counts, abssum


def compare(R, where, res, pixels, zones, num_zones, nodata, z_nodata, out_dtype, case):
    means, counts, abssum = reference(pixels, zones, num_zones, nodata, z_nodata)
    eps = float(np.finfo(out_dtype).eps)
    got_m = np.asarray(res[..., 0], dtype=np.float64)
    got_c = np.asarray(res[..., 1], dtype=np.float64)
    R.count("zone_time_cells", int(means.size))
    R.count("empty_zone_cells", int((counts == 0).sum()))
    R.note_max("largest_zone_pixels", float(counts.max()) if counts.size else 0.0)
    if res.dtype != np.dtype(out_dtype) or res.shape != (pixels.shape[0], num_zones, 2):
        R.violation("C16:shape-dtype", f"{where}: result dtype {res.dtype} shape {res.shape}, expected {np.dtype(out_dtype)} {(pixels.shape[0], num_zones, 2)}", case)
        return False
    empty = counts == 0
    if np.any(~np.isnan(got_m[empty])) or np.any(got_c[empty] != 0):
        R.violation("C16:empty-zone", f"{where}: a zone without valid pixels must give NaN / 0, got mean {got_m[empty][:3].tolist()} count {got_c[empty][:3].tolist()}", case)
        return False
    exp_c = counts.astype(out_dtype).astype(np.float64)
    if np.any(got_c != exp_c):
        i = np.argwhere(got_c != exp_c)[0]
        R.violation("C16:count", f"{where}: count for (t={i[0]}, zone={i[1]}) is {got_c[tuple(i)]:.0f}, exact {counts[tuple(i)]}", case)
        return False
    ne = ~empty
    with np.errstate(invalid="ignore", divide="ignore"):
        tol = 4 * eps * np.abs(means) + (0.0 if pixels.dtype.kind in "iu" else counts * 2.0 ** -53 * np.where(counts > 0, abssum / np.maximum(counts, 1), 0))
    bad = ne & ~(np.abs(got_m - means) <= tol)
    if np.any(bad):
        i = np.argwhere(bad)[0]
        R.violation("C16:mean", f"{where}: mean for (t={i[0]}, zone={i[1]}) with {counts[tuple(i)]} pixels is {got_m[tuple(i)]!r}, exact {means[tuple(i)]!r} (allowed {tol[tuple(i)]:.3g}, out dtype {np.dtype(out_dtype)})", case)
        return False
    return True


def gen_small(rng, it):
    t = int(rng.integers(1, 4))
    ny, nx = int(rng.integers(1, 40)), int(rng.integers(1, 40))
    nz = int(rng.choice([1, 2, 3, 7, 50, 1000]))
    ddt = ["int16", "float32", "float64", "int32", "uint8"][it % 5]
    zdt = ["int16", "int32", "int64", "uint8"][H.pick(it, 1, 4)]
    if zdt == "uint8":
        nz = min(nz, 200)
    z_nodata = 255 if zdt == "uint8" else int(rng.choice([-1, 32767]))
    zones = rng.integers(0, max(1, int(nz * rng.uniform(0.3, 1.0))), (ny, nx))
    zones = np.where(zones == z_nodata, 0, zones)
    zones = np.where(rng.random((ny, nx)) < rng.uniform(0, 0.4), z_nodata, zones).astype(zdt)
    # placeholders incl. ones that have no exact float32 image (INT32_MAX, -9999.9): the test "pixel == nodata" must be made
    # on the values as stored, whatever the output dtype; float32 rasters only get placeholders a float32 cell can hold
    nodata = {
        "int16": [-9999, -9999, -32768, 32767, 0],
        "float32": [-9999.0, -9999.0, float(np.float32(-9999.9)), float(np.finfo(np.float32).min), 0.0],
        "float64": [-9999.0, -9999.0, -9999.9, float(np.finfo(np.float64).min), 1e20],
        "int32": [-9999, -9999, 2147483647, -2147483647, 0],
        "uint8": [255, 255, 0],
    }[ddt]
    nodata = nodata[int(rng.integers(0, len(nodata)))]
    if ddt == "uint8":
        px = rng.integers(0, 255, (t, ny, nx))
    elif ddt.startswith("int"):
        px = rng.integers(-3000, 10000, (t, ny, nx))
    else:
        px = rng.normal(500, 300, (t, ny, nx)) * float(10.0 ** int(rng.integers(-3, 4)))
    share = [0.0, 0.1, 0.5, 1.0][int(rng.integers(0, 4))]
    px = np.where(rng.random((t, ny, nx)) < share, nodata, px).astype(ddt)
    return px, zones, nz, nodata, z_nodata


def shard_small(spec, R):
    import pandas as pd
    import xarray as xr
    import hdc.algo  # noqa

    f = do_mean()
    rng = np.random.default_rng([spec["seed"], 16, 1, spec["sub"]])
    for it in range(spec["cases"]):
        if R.out_of_time():
            break
        px, zones, nz, nodata, z_nodata = gen_small(rng, it)
        odt = np.float32 if H.pick(it, 2, 3) else np.float64
        case = {"pixels": px if px.size < 2000 else px[:, :8, :8], "zones": zones if zones.size < 2000 else zones[:8, :8], "num_zones": nz, "nodata": nodata, "z_nodata": z_nodata, "out_dtype": np.dtype(odt).name, "truncated": px.size >= 2000}
        R.evaluation()
        R.case(bool((px == nodata).any()), px, zones, nz)
        res = f(px, zones, nz, nodata, z_nodata, odt) if it % 2 else (f(px, zones, nz, nodata, z_nodata) if odt is np.float32 else f(px, zones, nz, nodata, z_nodata, out_dtype=odt))
        if not compare(R, "do_mean", res, px, zones, nz, nodata, z_nodata, odt, case):
            continue
        # pixel rearrangement: same permutation applied to the data and the zone raster
        perm = rng.permutation(zones.size)
        px2 = px.reshape(px.shape[0], -1)[:, perm].reshape(px.shape)
        z2 = zones.ravel()[perm].reshape(zones.shape)
        res2 = f(px2, z2, nz, nodata, z_nodata, odt)
        R.count("permutation_pairs")
        m1, m2 = res[..., 0].astype(np.float64), res2[..., 0].astype(np.float64)
        if not np.array_equal(res[..., 1], res2[..., 1]) or not compare(R, "do_mean (permuted pixels)", res2, px2, z2, nz, nodata, z_nodata, odt, dict(case, permuted=True)):
            R.violation("C16:permutation", "zonal mean changes under a rearrangement of the pixels", case)
            continue
        # accessor (numpy): NaN cells are mapped to nodata, coords / attrs / dtype argument
        if it % 2 == 0:
            t = px.shape[0]
            pf = px
            nan_used = False
            if px.dtype.kind == "f" and rng.random() < 0.7:
                pf = px.copy()
                pf[rng.random(px.shape) < 0.1] = np.nan
                nan_used = True
                R.count("accessor_with_nan")
            da = xr.DataArray(pf, dims=["time", "y", "x"], coords={"time": pd.date_range("2000-01-01", periods=t)}, attrs={"nodata": nodata})
            zd = xr.DataArray(zones, dims=["y", "x"], attrs={"nodata": z_nodata})
            ids = list(range(nz))
            # the cube / the zones may be stored in another dimension order: pixels and zones are matched by name
            order = [("time", "y", "x"), ("y", "x", "time"), ("x", "time", "y"), ("time", "x", "y")][H.pick(it, 3, 4)]
            zorder = [("y", "x"), ("x", "y")][H.pick(it, 4, 2)]
            R.count(f"accessor_order_{'_'.join(order)}")
            da_o = da.transpose(*order)
            if H.pick(it, 5, 2):
                da_o = da_o.copy(data=np.ascontiguousarray(da_o.values))  # really stored that way, not a view
            r = da_o.hdc.zonal.mean(zd.transpose(*zorder), ids, dtype=np.dtype(odt).name, dim_name="zz")
            R.count("accessor_calls")
            ok_meta = r.dims == ("time", "zz", "stat") and list(r.stat.values) == ["mean", "valid"] and list(r.zz.values) == ids and r.attrs.get("nodata") == nodata
            if not ok_meta:
                R.violation("C16:accessor-meta", f"zonal.mean dims {r.dims}, stat {list(r.stat.values)}, attrs {dict(r.attrs)}", case)
                continue
            pref = np.where(np.isnan(pf), nodata, pf).astype(px.dtype) if nan_used else px
            if not compare(R, "zonal.mean accessor", np.asarray(r.values), pref, zones, nz, nodata, z_nodata, odt, dict(case, accessor=True, nan_cells=nan_used)):
                continue
            # dask-backed input (per-time chunks, y/x chunks, lazy or in-memory zones): same contract, declared == computed dtype
            if it % 4 == 0:
                import dask

                ch = [{"time": 1, "y": -1, "x": -1}, {"time": -1, "y": max(1, zones.shape[0] // 2), "x": -1}, {"time": 1, "y": max(1, zones.shape[0] // 3), "x": max(1, zones.shape[1] // 2)}][H.pick(it, 6, 3)]
                dd = da.chunk(ch)
                zz = zd.chunk({"y": ch["y"], "x": ch["x"]}) if H.pick(it, 7, 2) else zd
                if H.pick(it, 9, 2):
                    zz = zz.transpose("x", "y")  # zones stored in the other order than the cube's raster dimensions (matched by name)
                    R.count("accessor_dask_zones_transposed")
                try:
                    lazy = dd.hdc.zonal.mean(zz, ids, dtype=np.dtype(odt).name, dim_name="zz")
                    with dask.config.set(scheduler="threads" if H.pick(it, 8, 2) else "synchronous"):
                        got = lazy.compute()
                except Exception as e:
                    R.count(f"dask_refused_{type(e).__name__}")
                    continue
                R.count("accessor_dask_calls")
                if lazy.dtype != got.dtype:
                    R.violation("C16:dask-dtype", f"zonal.mean on dask input declares {lazy.dtype} but computes {got.dtype} (requested {np.dtype(odt).name})", dict(case, accessor=True, dask=True))
                    continue
                compare(R, "zonal.mean accessor (dask)", np.asarray(got.values), pref, zones, nz, nodata, z_nodata, odt, dict(case, accessor=True, dask=True))
                # two lazy results over the same cube with different zone rasters (same name, dims, shape, dtype and ids),
                # both given the same `name=`, evaluated in ONE graph: each must still be the mean over its own zones
                zones_b = np.where(zones == z_nodata, z_nodata, (zones.astype(np.int64) + 1) % max(1, nz)).astype(zones.dtype)[::-1, ::-1].copy()
                zb = xr.DataArray(zones_b, dims=["y", "x"], attrs={"nodata": z_nodata})
                if H.pick(it, 7, 2):
                    zb = zb.chunk({"y": ch["y"], "x": ch["x"]})
                try:
                    la = dd.hdc.zonal.mean(zz, ids, dtype=np.dtype(odt).name, dim_name="zz", name="zonal_mean")
                    lb = dd.hdc.zonal.mean(zb, ids, dtype=np.dtype(odt).name, dim_name="zz", name="zonal_mean")
                    ga, gb = dask.compute(la, lb, scheduler="synchronous")
                except Exception as e:
                    R.count(f"dask_refused_{type(e).__name__}")
                    continue
                R.count("accessor_dask_joint_graphs")
                compare(R, "zonal.mean accessor (dask, first of two results in one graph)", np.asarray(ga.values), pref, zones, nz, nodata, z_nodata, odt, dict(case, accessor=True, dask=True, joint=True))
                compare(R, "zonal.mean accessor (dask, second of two results in one graph)", np.asarray(gb.values), pref, zones_b, nz, nodata, z_nodata, odt, dict(case, accessor=True, dask=True, joint=True, zones_b=zones_b))
        if R.want_sample() and px.size < 200:
            R.sample({"pixels": px, "zones": zones, "num_zones": nz, "nodata": nodata, "z_nodata": z_nodata, "result": res})


def shard_large(spec, R):
    f = do_mean()
    rng = np.random.default_rng([spec["seed"], 16, 2, spec["sub"]])
    n = spec["pixels"]
    ny = 1000
    nx = n // ny
    nt = spec.get("steps", 1)  # several time steps in one call: size- or shape-dependent code paths (threading, tiling)
    for pattern in spec["patterns"]:
        if pattern == "alt":
            px = (1000 + (np.arange(ny * nx) % 2)).astype(np.int16).reshape(1, ny, nx)
        elif pattern == "rand":
            px = rng.integers(2000, 9001, (1, ny, nx)).astype(np.int16)
        else:  # float32 data
            px = rng.uniform(0.2, 0.9, (1, ny, nx)).astype(np.float32)
        if nt > 1:
            px = np.concatenate([np.roll(px, 7 * k, axis=2) + (k if px.dtype.kind == "i" else 0) for k in range(nt)], axis=0)
            R.count("large_multi_step_rasters")
        zones = np.zeros((ny, nx), dtype=np.int16)
        zones[:2, :] = 1  # a small second zone, and a third left empty
        nodata = -9999
        px[:, 5, ::7] = nodata
        for odt in (np.float32, np.float64):
            case = {"generator": {"pixels": n, "pattern": pattern, "seed": spec["seed"], "sub": spec["sub"], "steps": nt}, "out_dtype": np.dtype(odt).name}
            R.evaluation()
            R.case(True, "large", n, pattern, np.dtype(odt).name, spec["seed"])
            R.count(f"large_zone_{n}")
            res = f(px, zones, 3, nodata, -1, odt)
            compare(R, f"do_mean ({n} pixels in a zone, {pattern})", res, px, zones, 3, nodata, -1, odt, case)
    R.sample({"large_zone_pixels": n, "patterns": spec["patterns"], "mean_float32": float(res[0, 0, 0]), "count": float(res[0, 0, 1])})


def plan(tier, seed):
    q = tier == "quick"
    specs = [{"kind": "small", "sub": i, "cases": 120 if q else 4000, "budget_s": 100 if q else 600} for i in range(8 if q else 16)]
    for n in (100_000, 1_000_000, 17_000_000):
        specs.append({"kind": "large", "sub": 0, "pixels": n, "patterns": ["alt", "rand", "float"]})
    specs.append({"kind": "large", "sub": 3, "pixels": 1_000_000, "steps": 4, "patterns": ["rand", "float"]})
    specs.append({"kind": "large", "sub": 4, "pixels": 300_000, "steps": 6, "patterns": ["alt"]})
    if not q:
        specs.append({"kind": "large", "sub": 1, "pixels": 25_000_000, "patterns": ["alt", "rand", "float"]})
        specs.append({"kind": "large", "sub": 2, "pixels": 17_000_000, "patterns": ["rand"]})
    return specs


def run_shard(spec, R):
    {"small": shard_small, "large": shard_large}[spec["kind"]](spec, R)


def finalize(agg, tier):
    c = agg["counters"]
    out = []
    for k in ("zone_time_cells", "empty_zone_cells", "permutation_pairs", "accessor_calls", "accessor_dask_calls", "accessor_with_nan", "large_multi_step_rasters", "large_zone_100000", "large_zone_1000000", "large_zone_17000000"):
        if c.get(k, 0) == 0:
            out.append(f"monitor/class {k} never observed")
    return out


def replay(case, R):
    f = do_mean()
    if "generator" in case:
        g = case["generator"]
        shard_large({"seed": int(g["seed"]), "sub": int(g["sub"]), "pixels": int(g["pixels"]), "patterns": [g["pattern"]], "steps": int(g.get("steps", 1))}, R)
        return
    if case.get("truncated"):
        R.inconclusive_because("raster truncated in the witness: re-run the seeded shard")
        return
    px = np.asarray(case["pixels"])
    zones = np.asarray(case["zones"])
    odt = np.dtype(case["out_dtype"]).type
    res = f(px, zones, int(case["num_zones"]), case["nodata"], case["z_nodata"], odt)
    R.evaluation()
    compare(R, "do_mean", res, px, zones, int(case["num_zones"]), case["nodata"], case["z_nodata"], odt, case)
