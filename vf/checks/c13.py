"""C13 — compiled kernels compute what their Python source says.

Differential monitor over the 35 programs: identical inputs go to the Numba-compiled callable and to the same code
object executed by CPython with NumPy/SciPy semantics (vf.shim; callees stay compiled, so every program is tested at
its own level).  Plus the SciPy special functions bound into nopython code through the vendored extension.
"""

from __future__ import annotations

import math
import warnings

import numpy as np

from .. import programs as PR
from .. import shim
from .c14 import GROUPS

PID = "C13"
RULE = (
    "case = (program, input dtype, input); 35 programs (21 njit, 14 guvectorize) x every supported input dtype of the "
    "signature (int16 both |x| <= a few hundred and full range as separate classes) x min / edge / random in-contract "
    "inputs. Non-trivial: the output is not all nodata / zero. distinct = SHA-1 of (program, dtype, arguments)."
)
ASSUMPTIONS = [
    "floats: 1e-9 relative (+1e-12 absolute) for integer / float64 inputs, 5e-6 relative for float32 inputs; integer outputs equal except where the tapped unrounded curve is within 1e-9 of a rounding tie",
    "a different lambda is tolerated only when the tapped criterion values of the two candidates agree to 1e-9 relative or are not finite (counted)",
    "robust GCV programs: a pair is excluded when a tapped robust pass has its MAD inside kappa*eps*max|y| of the solve it came from (counted)",
    "V-curve kernels raise 'math domain error' (log 0) when interpreted on exactly reproducible data: class counted and excluded",
    "gufunc scalar arguments used as loop bounds (num_groups, window_size) are passed as Python ints to the interpreted source",
]
HARD_TIMEOUT_S = {"quick": 900, "thorough": 3600}

SMOOTHERS = {"ws2dgu", "ws2dpgu", "ws2doptv", "ws2doptvp", "ws2doptvplc", "ws2dwcv", "ws2dwcvp"}
SELECTORS = {"ws2doptv", "ws2doptvp", "ws2doptvplc", "ws2dwcv", "ws2dwcvp", "_ws2doptvp", "_ws2dwcvp", "ws2doptvplc_tyx"}

_I = {}


def interp(name, deep=False):
    """deep=False: callees stay compiled (the program is tested at its own level);
    deep=True: every hdc callee is interpreted as well, so a callee that was compiled differently *because of its caller*
    (inherited compiler flags, another specialisation) is compared with its source too."""
    if (name, deep) not in _I:
        _I[(name, deep)] = shim.interp(PR.BY_NAME[name].get(), deep=deep)
    return _I[(name, deep)]


HAS_HDC_CALLEES = {"autocorr", "autocorr_tyx", "autocorr_1d", "mann_kendall_trend_1d", "mann_kendall_trend_yxt", "_mann_kendall_trend_gu", "_mann_kendall_trend_gu_nd",
                   "gammafit", "gammastd", "gammastd_yxt", "gammastd_grp", "ws2doptvplc_tyx", "_ws2doptvp", "_ws2dwcvp", "tinterpolate",
                   "ws2dgu", "ws2dpgu", "ws2doptv", "ws2doptvp", "ws2doptvplc", "ws2dwcv", "ws2dwcvp"}


def _amp(sample):
    pos = np.asarray(sample, dtype=np.float64).ravel()
    pos = pos[(pos > 0) & (pos != -9999)]
    if pos.size == 0:
        return 0.0  # nothing to fit: both worlds return nodata
    if pos.size < 2 or np.ptp(pos) == 0:
        return np.inf  # s is exactly 0 in float64 but rounding noise in single precision: undetermined
    s_stat = math.log(pos.mean()) - np.log(pos).mean()
    return 4 * 2.0 ** -23 * max(1.0, float(np.max(np.abs(np.log(pos))))) / max(s_stat, 1e-300)


def fit_amplification(name, args):
    """Worst conditioning factor of the gamma fits a call performs (float32 inputs)."""
    x = np.asarray(args[0])
    if name == "gammafit":
        return _amp(x)
    if name == "gammastd":
        return _amp(x[args[2]:args[3]])
    if name == "gammastd_yxt":
        return max(_amp(x[i, j, args[2]:args[3]]) for i in range(x.shape[0]) for j in range(x.shape[1]))
    groups, k, cal = np.asarray(args[1]), int(args[2]), np.asarray(args[4])
    return max(_amp(x[groups == g][cal[g, 0]:cal[g, 1]]) for g in range(k))


def close(a, b, rtol, atol=1e-12):
    a = np.asarray(a, dtype=np.float64)
    b = np.asarray(b, dtype=np.float64)
    if a.shape != b.shape:
        return False
    with np.errstate(invalid="ignore"):
        both_nan = np.isnan(a) & np.isnan(b)
        same_inf = np.isinf(a) & np.isinf(b) & (np.sign(a) == np.sign(b))
        ok = both_nan | same_inf | (np.abs(a - b) <= atol + rtol * np.maximum(np.abs(a), np.abs(b)))
    return bool(np.all(ok))


def flatten(res):
    if isinstance(res, tuple):
        out = []
        for r in res:
            out.extend(flatten(r))
        return out
    return [np.asarray(res)]


def run_interpreted(p, args, compiled_out, deep=False):
    """Returns (list of outputs, tap) for one core call of the interpreted source."""
    f = interp(p.name, deep)
    taps = ["z", "v", "robust_gcv", "gcv_temp", "fits", "pens"] if (p.name in SMOOTHERS or p.name in ("_ws2doptvp", "_ws2dwcvp")) else []
    lines = ROBUST_LINES if p.name in ROBUST_PROGRAMS else None
    if p.kind == "gufunc":
        outs = [np.zeros(np.asarray(c).shape if np.asarray(c).ndim else 1, dtype=np.asarray(c).dtype) for c in compiled_out]
        try:
            tap = shim.Tap(f, at_return=taps, lines=lines)
        except ValueError:  # the source no longer offers the tapped fragment
            tap = shim.Tap(f, at_return=taps)
        with tap:
            f(*args, *outs)
        res = [o if np.asarray(c).ndim else o[0] for o, c in zip(outs, compiled_out)]
        return [np.asarray(r) for r in res], tap
    try:
        tap = shim.Tap(f, at_return=taps, lines=lines)
    except ValueError:
        tap = shim.Tap(f, at_return=taps)
    with tap:
        r = f(*args)
    return flatten(r), tap


SLOPE_OUTPUT = {"mk_sens_slope": 0, "mann_kendall_trend_1d": 2, "_mann_kendall_trend_gu": 2, "_mann_kendall_trend_gu_nd": 2}
ROBUST_PROGRAMS = {"ws2dwcv", "ws2dwcvp", "_ws2dwcvp"}
ROBUST_LINES = {("mad = np.median(np.abs(r_arr[", "u_arr = r_arr /"): ["mad", "w_temp", "s"]}


def robust_scale_in_solver_noise(R, tap, y):
    """A robust pass whose residual scale (MAD) lies inside the forward-error bound kappa*eps*max|y| of the solve it was
    taken from (typically: only two cells still carry weight, so the fit is exact and every residual is rounding noise):
    the bisquare weights derived from it are not determined to 1e-9 by float64 semantics in either world (same class as
    the path-conditioning exclusion of C05)."""
    from ..oracles import whittaker as W

    if tap is None:
        return False
    y = np.asarray(y, dtype=float)
    for _, loc in tap.events:
        mad, wt, s_ = loc.get("mad"), loc.get("w_temp"), loc.get("s")
        if mad is None or wt is None or s_ is None:
            continue
        wt = np.asarray(wt, dtype=float)
        if (wt > 0).sum() < 2 or not np.isfinite(float(mad)):
            continue
        sel = (wt > 0) & np.isfinite(y)
        keps = W.cond2(y.size, wt, float(s_)) * 2.0 ** -53
        if float(mad) > 0 and float(mad) <= keps * max(1.0, float(np.max(np.abs(y[sel])))):
            R.count("robust_scale_in_solver_noise_excluded")
            return True
    return False


_LAYOUT_COUNTER = [0]


def hostile_layout(args):
    """Every other case hands the 1-d array arguments over as non-contiguous views (both worlds get the same views): a
    kernel whose signature promises contiguity it does not have reads neighbouring memory when compiled, not when
    interpreted."""
    from .. import smooth as S

    _LAYOUT_COUNTER[0] += 1
    if _LAYOUT_COUNTER[0] % 2:
        return args, "contiguous"
    out = []
    for a in args:
        if isinstance(a, np.ndarray) and a.ndim == 1 and a.size >= 2:
            out.append(S.present(a, a.dtype)[0])
        else:
            out.append(a)
    return out, "views"


def _cp(a, layout):
    """A private copy of an argument in the same memory layout."""
    from .. import smooth as S

    if layout == "views" and a.ndim == 1 and a.size >= 2:
        return S.present(np.ascontiguousarray(a), a.dtype)[0]
    return a.copy()


def compare_case(R, p, dtype, cls, args, deep=False):
    name = p.name
    args, layout = hostile_layout(args)
    R.count(f"argument_layout_{layout}")
    case = {"program": name, "dtype": dtype, "cls": cls, "deep": deep, "args": [a if not isinstance(a, type) else a.__name__ for a in args]}
    if deep:
        R.count("deep_pairs")
    R.evaluation()
    f = p.get()
    with warnings.catch_warnings():
        warnings.simplefilter("ignore")
        try:
            comp = f(*[_cp(a, layout) if isinstance(a, np.ndarray) else a for a in args])
        except Exception as e:
            R.count(f"compiled_raises_{type(e).__name__}")
            comp = e
    cflat = None if isinstance(comp, Exception) else flatten(comp)
    overflow = []
    with warnings.catch_warnings(record=True) as wlist, np.errstate(all="warn"):
        warnings.simplefilter("always")
        try:
            iflat, tap = run_interpreted(p, [_cp(a, layout) if isinstance(a, np.ndarray) else a for a in args], cflat if cflat is not None else [], deep)
            ierr = None
        except Exception as e:
            iflat, tap, ierr = None, None, e
        overflow = [str(w.message) for w in wlist if "overflow" in str(w.message)]
    nontriv = cflat is not None and any(c.size and np.any((c != 0) & (c != -9999) & (c != -3000)) for c in cflat if c.dtype.kind in "iuf")
    R.case(bool(nontriv), name, dtype, *[a for a in args if not isinstance(a, type)])
    R.count(f"pairs_{name}")
    if ierr is not None:
        if isinstance(ierr, ValueError) and "math domain error" in str(ierr) and name in SELECTORS | {"ws2doptvplc_tyx"}:
            R.count("interpreted_log0_excluded")
            return
        if isinstance(ierr, OverflowError) and "out of bounds for int" in str(ierr):
            # the curve leaves the output's integer range (outside every smoother claim): NumPy refuses the store,
            # nopython code wraps; counted, not compared
            R.count("interpreted_int_store_overflow_excluded")
            return
        if isinstance(comp, Exception) and type(comp) is type(ierr):
            R.count("both_raise_same")
            return
        if isinstance(comp, Exception):
            R.count("both_raise_different_type")
            return
        R.violation(f"C13:interpreted-raises:{name}", f"{name}({dtype}, {cls}): the Python source raises {type(ierr).__name__}: {str(ierr)[:120]} while the compiled kernel returns a result", case)
        return
    if isinstance(comp, Exception):
        R.violation(f"C13:compiled-raises:{name}", f"{name}({dtype}, {cls}): the compiled kernel raises {type(comp).__name__}: {str(comp)[:120]} while the Python source returns a result", case)
        return
    rtol = 5e-6 if dtype == "float32" else 1e-9
    atol = 1e-12
    if dtype == "float32" and name in ("gammafit", "gammastd", "gammastd_yxt", "gammastd_grp"):
        # single-precision logarithms in the compiled fit: the error of alpha is amplified by 1/s (near-constant data);
        # s is taken over exactly the samples each fit uses (calibration window, per pixel / per group)
        amp = fit_amplification(name, args)
        if True:
            if amp > 1e-3:
                R.count("float32_fit_ill_conditioned_excluded")
                return
            rtol = max(rtol, 4 * amp)
            atol = 40 * amp
            if name != "gammafit":
                # deep tails amplify the single-precision error of the fit without bound (dSPI = dp / phi(SPI)): float32
                # inputs are compared inside |SPI| <= 3 only; the tails are held to the definition by C07's interval oracle
                lim = 3.0 if name == "gammastd" else 3000.0
                keep = [np.abs(np.asarray(i, dtype=np.float64)) <= lim for i in iflat]
                # NumPy's scalar promotion evaluates float32 / python-float in single precision: x / beta underflows for
                # positive x below ~1e-30 in the interpreted run only (the compiled code divides in double precision);
                # single-precision accuracy cannot be claimed in the underflow range
                xin = np.asarray(args[0], dtype=np.float64)
                tiny = (xin > 0) & (xin < 1e-30)
                if tiny.any() and all(k.shape == tiny.shape for k in keep):
                    R.count("float32_underflow_cells_skipped", int(tiny.sum()))
                    keep = [k & ~tiny for k in keep]
                R.count("float32_tail_cells_skipped", int(sum((~k).sum() for k in keep)))
                cflat = [np.where(k, c, 0) for c, k in zip(cflat, keep)]
                iflat = [np.where(k, i, 0) for i, k in zip(iflat, keep)]
                atol = max(atol, 1.0 if name != "gammastd" else 1e-3)
    if len(cflat) != len(iflat):
        R.violation(f"C13:shape:{name}", f"{name}: compiled returns {len(cflat)} arrays, interpreted {len(iflat)}", case)
        return
    lam_differs = False
    atol0 = atol
    for k, (c, i) in enumerate(zip(cflat, iflat)):
        if c.shape != i.shape:
            R.violation(f"C13:shape:{name}", f"{name}: output {k} shapes {c.shape} vs {i.shape}", case)
            return
        atol = atol0
        if dtype == "float32" and name in SLOPE_OUTPUT and (k == SLOPE_OUTPUT[name] or (name == "mk_sens_slope" and k == 1)):
            # Sen's slope is a median of differences of the data: single precision of the *data* (the two middle slopes
            # may cancel, e.g. (-4.25 + 4.23) / 2), i.e. an absolute allowance of a few float32 ulps of max|x|
            xin = np.asarray(args[0], dtype=np.float64)
            xin = xin[np.isfinite(xin)]
            if xin.size:
                atol = max(atol0, 8 * 2.0 ** -23 * float(np.max(np.abs(xin))))
                if name == "mk_sens_slope" and k == 1:  # intercept = median(x) - (n - 1) / 2 * slope inherits (n - 1) / 2 slope errors
                    atol *= 1 + xin.size / 2
        if dtype == "float32" and name == "mann_kendall_trend_yxt" and k == 0 and c.ndim == 3 and c.shape[-1] == 4:
            # one (y, x, 4) array: tau, p, slope, trend - only the slope plane is in data units
            xin = np.asarray(args[0], dtype=np.float64)
            xin = xin[np.isfinite(xin)]
            a_sl = max(atol0, 8 * 2.0 ** -23 * float(np.max(np.abs(xin)))) if xin.size else atol0
            if close(c[..., 2], i[..., 2], rtol, a_sl):
                c, i = c.copy(), i.copy()
                i[..., 2] = c[..., 2]
        if c.dtype.kind == "f" or i.dtype.kind == "f":
            if not close(c, i, rtol, atol):
                if name in SELECTORS and c.size == max(1, c.size) and k >= 1:
                    lam_differs = True
                    continue
                if name in ROBUST_PROGRAMS and robust_scale_in_solver_noise(R, tap, args[0]):
                    return
                key = f"C13:int-width:{name}" if overflow else f"C13:value:{name}"
                j = int(np.argmax(~np.isclose(np.asarray(c, dtype=float), np.asarray(i, dtype=float), rtol=rtol, atol=1e-12, equal_nan=True))) if c.size > 1 else 0
                R.violation(key, f"{name}({dtype}, {cls}): output {k} differs: compiled {np.asarray(c).ravel()[j]!r} vs interpreted {np.asarray(i).ravel()[j]!r}" + (f" (NumPy integer overflow in the interpreted run: {overflow[0][:60]})" if overflow else ""), case)
                return
    if lam_differs and name == "ws2doptvplc_tyx":
        # per-pixel lambdas: a differing pixel is excused only when our own replica of its V-curve is noise / tied
        from ..oracles import whittaker as W
        from .. import smooth as S
        from . import c04
        cube, pp, nd = args
        lc_c, lc_i = np.asarray(cflat[1], dtype=float), np.asarray(iflat[1], dtype=float)
        bad = np.argwhere(np.abs(lc_c - lc_i) > 1e-12 * np.maximum(np.abs(lc_c), 1e-300))
        for a_, b_ in bad:
            y = np.asarray(cube[:, a_, b_], dtype=float)
            w = W.valid_eq(y, nd)
            ycl = np.where(w > 0, y, 0.0)
            lcv = float(S.K("autocorr_1d")(np.ascontiguousarray(cube[:, a_, b_]), nd))
            g = c04.grid_for_lc(lcv)
            v1 = W.vcurve(ycl, w, g, S.ws2d_solver, p=float(pp))
            k1, _, _ = c04.find_mid(float(lc_c[a_, b_]), g)
            k2, _, _ = c04.find_mid(float(lc_i[a_, b_]), g)
            if c04.is_degenerate(v1, ycl, float(pp)) or S.rel_tied(float(v1["v"][k1]), float(v1["v"][k2]), 1e-9):
                R.count("lambda_criterion_tie_or_noise")
                continue
            R.violation(f"C13:lambda:{name}", f"{name}: pixel ({a_},{b_}) compiled lambda {lc_c[a_, b_]:.9g}, interpreted {lc_i[a_, b_]:.9g} (criterion not tied)", case)
            return
        return
    if lam_differs:
        # selection kernels: excused only by a criterion tie / non-finite criterion (tapped from the interpreted run)
        loc = tap.ret[-1] if tap and tap.ret else {}
        crit = loc.get("v")
        if crit is None and loc.get("robust_gcv") is not None:
            crit = np.asarray(loc["robust_gcv"], dtype=float)[:, 0]
        noise_level = False
        if loc.get("fits") is not None and loc.get("pens") is not None:
            scale = max(1.0, float(np.max(np.abs(np.asarray(args[0], dtype=float)[np.asarray(args[0], dtype=float) != float(args[1])]))) if np.any(np.asarray(args[0], dtype=float) != float(args[1])) else 1.0)
            with np.errstate(over="ignore", invalid="ignore"):
                noise_level = bool(np.any(np.exp(np.asarray(loc["fits"], dtype=float)) < (1e-9 * scale) ** 2) or np.any(np.exp(np.asarray(loc["pens"], dtype=float)) < (1e-9 * scale) ** 2))
        deg = noise_level or crit is None or not np.all(np.isfinite(crit)) or (np.asarray(crit).size > 1 and np.min(np.abs(np.diff(np.sort(np.asarray(crit, dtype=float))))) <= 1e-9 * np.max(np.abs(crit))) or np.min(np.abs(crit)) < 1e-12
        lc, li = [x for x in cflat if x.ndim == 0 or x.size == 1][-1], [x for x in iflat if x.ndim == 0 or x.size == 1][-1]
        if abs(float(lc) - float(li)) <= 1e-12 * abs(float(lc)):
            R.count("lambda_last_ulp")
        elif deg:
            R.count("lambda_criterion_tie_or_noise")
            return
        else:
            R.violation(f"C13:lambda:{name}", f"{name}({dtype}, {cls}): compiled selects lambda {float(lc):.9g}, interpreted {float(li):.9g} (criterion not tied)", case)
            return
    for k, (c, i) in enumerate(zip(cflat, iflat)):
        if c.dtype.kind in "iub" and i.dtype.kind in "iub":
            if np.array_equal(c, i):
                continue
            d = np.abs(c.astype(np.int64) - i.astype(np.int64))
            z = (tap.ret[-1].get("z") if tap and tap.ret else None)
            tie_ok = False
            if z is not None and np.asarray(z).shape == c.shape and np.all(d <= 1):
                zz = np.asarray(z, dtype=float)
                frac = np.abs(zz - np.floor(zz) - 0.5)
                tie_ok = bool(np.all(frac[d > 0] <= 1e-9 * np.maximum(1.0, np.abs(zz[d > 0])))) or lam_differs
            if tie_ok:
                R.count("integer_rounding_ties")
                continue
            if name in ROBUST_PROGRAMS and robust_scale_in_solver_noise(R, tap, args[0]):
                return
            key = f"C13:int-width:{name}" if overflow else f"C13:value:{name}"
            j = int(np.argmax(d.ravel()))
            R.violation(key, f"{name}({dtype}, {cls}): integer output {k} differs at {j}: compiled {c.ravel()[j]} vs interpreted {i.ravel()[j]}" + (f" (NumPy integer overflow in the interpreted run)" if overflow else ""), case)
            return
    if overflow:
        R.count("interpreted_overflow_warnings_without_divergence")
    if R.want_sample() and nontriv:
        R.sample({"program": name, "dtype": dtype, "compiled": [c.ravel()[:6] for c in cflat][:2], "interpreted": [i.ravel()[:6] for i in iflat][:2]})


def shard_programs(spec, R):
    rng = np.random.default_rng([spec["seed"], 13, spec["group"]])
    for name in GROUPS[spec["group"]]:
        p = PR.BY_NAME[name]
        for dtype in p.dtypes:
            R.count(f"dtype_classes_{dtype}")
            for cls, reps in (("min", spec["reps_min"]), ("edge", spec["reps_edge"]), ("random", spec["reps_random"])):
                for _ in range(reps):
                    if R.out_of_time():
                        R.count("stopped_on_budget")
                        break
                    compare_case(R, p, dtype, cls, p.gen(rng, cls, dtype))
            # callees interpreted too (small inputs: the interpreted solver loops are slow)
            if name in HAS_HDC_CALLEES:
                for cls, reps in (("min", 1), ("edge", spec.get("reps_deep", 3))):
                    for _ in range(reps):
                        if R.out_of_time():
                            break
                        compare_case(R, p, dtype, cls, p.gen(rng, cls, dtype), deep=True)
        R.count("programs_compared")


def shard_special(spec, R):
    """digamma / gammainc / ndtri as bound into nopython code vs scipy.special (bit-equal) and mpmath (1e-13)."""
    import numba
    import scipy.special as sc
    import hdc.algo.ops.stats  # noqa: F401  (registers the vendored overloads)
    from hdc.algo.vendor.numba_scipy.special import signatures as sig

    @numba.njit
    def nb_digamma(x):
        out = np.empty_like(x)
        for i in range(x.size):
            out[i] = sc.digamma(x[i])
        return out

    @numba.njit
    def nb_gammainc(a, x):
        out = np.empty_like(x)
        for i in range(x.size):
            out[i] = sc.gammainc(a[i], x[i])
        return out

    @numba.njit
    def nb_ndtri(p):
        out = np.empty_like(p)
        for i in range(p.size):
            out[i] = sc.ndtri(p[i])
        return out

    rng = np.random.default_rng([spec["seed"], 13, 999])
    n = spec["points"]
    xa = np.concatenate([10 ** rng.uniform(-8, 8, n), [1e-300, 1.0, 2.0, 1e15]])
    a = np.concatenate([10 ** rng.uniform(-2, 5, n), [0.05, 500.0, 1e4]])
    x = np.concatenate([a[:n] * 10 ** rng.uniform(-3, 1.5, n), [1e-300, 1e-3, 1e9]])
    pr = np.concatenate([rng.uniform(0, 1, n), 10 ** rng.uniform(-300, -1, n), 1 - 10 ** rng.uniform(-16, -1, n), [0.0, 1.0, 0.5]])
    checks = [("digamma", nb_digamma(xa), sc.digamma(xa), (xa,)), ("gammainc", nb_gammainc(a, x), sc.gammainc(a, x), (a, x)), ("ndtri", nb_ndtri(pr), sc.ndtri(pr), (pr,))]
    for fname, got, ref, inputs in checks:
        R.evaluation(int(got.size))
        R.count(f"special_points_{fname}", int(got.size))
        R.enumerated(0)
        bad = ~((got == ref) | (np.isnan(got) & np.isnan(ref)))
        if np.any(bad):
            j = int(np.flatnonzero(bad)[0])
            R.violation(f"C13:special:{fname}", f"sc.{fname} inside nopython code returns {got[j]!r} for {[float(v[j]) for v in inputs]}, scipy.special gives {ref[j]!r}", {"function": fname, "inputs": [float(v[j]) for v in inputs]})
    # signatures resolved to the double kernels
    keys = set(sig.name_and_types_to_pointer.keys())
    import numba.types as nt
    for need in (("psi", nt.float64), ("ndtri", nt.float64), ("gammainc", nt.float64, nt.float64)):  # digamma is cython_special's psi
        R.count("signature_checks")
        if need not in keys:
            R.violation("C13:special:signature", f"no cython_special pointer registered for {need[0]}{tuple(str(t) for t in need[1:])}", {"function": need[0]})
    # mpmath cross-check (independent of the SciPy kernels)
    import mpmath as mp

    mp.mp.dps = 40
    for j in rng.choice(n, spec["mp_points"], replace=False):
        d = float(mp.digamma(mp.mpf(float(xa[j]))))
        try:
            g = float(mp.gammainc(mp.mpf(float(a[j])), 0, mp.mpf(float(x[j])), regularized=True))
        except Exception:  # mpmath's series did not converge for this (a, x): no reference for this point
            R.count("mpmath_gammainc_no_reference")
            g = None
        q = float(mp.sqrt(2) * mp.erfinv(2 * mp.mpf(float(pr[j])) - 1)) if 0 < pr[j] < 1 else None
        R.count("mpmath_points")
        for fname, got, ref, tol in (("digamma", nb_digamma(xa[j:j + 1])[0], d, 1e-12), ("gammainc", nb_gammainc(a[j:j + 1], x[j:j + 1])[0], g, 1e-11), ("ndtri", nb_ndtri(pr[j:j + 1])[0], q, 1e-12)):
            if ref is None:
                continue
            if abs(got - ref) > tol * max(abs(ref), 1e-300) + 1e-300 and not (abs(ref) < 1e-290):
                R.violation(f"C13:special:{fname}", f"sc.{fname} in nopython code = {got!r}, mpmath (40 digits) = {ref!r}", {"function": fname, "index": int(j)})
    R.case(True, "special", n)
    R.case(True, "special-mp", spec["mp_points"])
    R.sample({"special": "digamma/gammainc/ndtri", "points": int(n), "example": {"digamma(0.3)": float(nb_digamma(np.array([0.3]))[0])}})


def _code_objects(mod):
    """Every code object defined in a module: functions, methods, the sources behind @njit / lazycompile wrappers."""
    import types as _t

    seen, out = set(), []

    def add(code):
        if id(code) in seen:
            return
        seen.add(id(code))
        out.append(code)
        for c in code.co_consts:
            if isinstance(c, _t.CodeType):
                add(c)

    def visit(obj, depth=0):
        for cand in (obj, getattr(obj, "py_func", None), getattr(obj, "__wrapped__", None), getattr(getattr(obj, "__wrapped__", None), "py_func", None), getattr(obj, "fget", None)):
            code = getattr(cand, "__code__", None)
            if isinstance(code, _t.CodeType) and (getattr(cand, "__module__", None) or "").startswith("hdc."):
                add(code)
        if isinstance(obj, type) and depth < 2 and (obj.__module__ or "").startswith("hdc."):
            for v in vars(obj).values():
                visit(v, depth + 1)

    for v in list(vars(mod).values()):
        visit(v)
    return out


def _names(code, opnames):
    import dis
    import types as _t

    out = set()
    for ins in dis.get_instructions(code):
        if ins.opname in opnames:
            out.add(ins.argval)
    for c in code.co_consts:
        if isinstance(c, _t.CodeType):
            out |= _names(c, opnames)
    return out


def shard_globals(spec, R):
    """Frozen-global monitor.  Numba copies the value of a module global into the machine code when a kernel is compiled;
    the interpreted source reads it at every call.  The two can only part ways for a global that (a) a kernel (or one of
    its callees) reads, (b) holds a value Numba freezes, and (c) *library code assigns at run time*.  Every such global is
    moved after the kernel has been compiled and the compiled / interpreted pair is compared again."""
    import importlib
    import sys

    for m in ("hdc.algo", "hdc.algo.accessors", "hdc.algo.utils", "hdc.algo.dekad", "hdc.algo.ops", "hdc.algo.ops.stats"):
        importlib.import_module(m)
    mods = [m for n, m in sorted(sys.modules.items()) if n.startswith("hdc.") and m is not None]
    written = set()
    for m in mods:
        for code in _code_objects(m):
            written |= _names(code, ("STORE_GLOBAL", "DELETE_GLOBAL", "STORE_ATTR"))
    R.count("globals_modules_scanned", len(mods))
    R.note("names_assigned_by_library_code", len(written))
    freezable = (bool, int, float, complex, np.generic, np.ndarray)
    rng = np.random.default_rng([spec["seed"], 131])
    for p in PR.PROGRAMS:
        f = shim.source_func(p.get())
        reads, todo, seen = {}, [f], set()
        while todo:  # the program and every hdc callee
            g = todo.pop()
            if id(g) in seen:
                continue
            seen.add(id(g))
            for n in _names(g.__code__, ("LOAD_GLOBAL", "LOAD_NAME")):
                v = g.__globals__.get(n)
                if isinstance(v, freezable) and not isinstance(v, type):
                    reads[(g.__module__, n)] = g
                else:
                    try:
                        todo.append(shim.source_func(v)) if (getattr(v, "__module__", "") or "").startswith("hdc.") or hasattr(v, "py_func") else None
                    except TypeError:
                        pass
        R.count("globals_programs_scanned")
        R.count("globals_values_read_by_kernels", len(reads))
        for (modname, n), g in sorted(reads.items(), key=lambda kv: kv[0]):
            R.count(f"kernel_reads_global:{modname}.{n}")
            if n not in written:
                R.count("globals_read_only_constants")
                continue
            R.count("globals_assigned_at_run_time_and_read_by_a_kernel")
            old = g.__globals__[n]
            dtype = p.dtypes[0]
            compare_case(R, p, dtype, "edge", p.gen(rng, "edge", dtype), deep=True)  # compiled now (value frozen), pair agrees
            if isinstance(old, (bool, np.bool_)):
                moves = [not old]
            elif isinstance(old, np.ndarray):
                moves = [old * 1.5 + 1]
            else:
                moves = [type(old)(old * 10), type(old)(old / 10) if isinstance(old, (float, np.floating)) else type(old)(old + 1), type(old)(old + 1)]
            nv0 = len(R.violations)
            try:
                for mv in moves:
                    g.__globals__[n] = mv
                    _I.clear()
                    for _ in range(spec.get("reps", 12)):
                        R.count("globals_moved_pairs")
                        compare_case(R, p, dtype, "random", p.gen(rng, "random", dtype), deep=True)
            finally:
                g.__globals__[n] = old
                _I.clear()
            if len(R.violations) > nv0:
                R.violation(f"C13:frozen-global:{p.name}", f"{p.name} reads {modname}.{n} (= {old!r}), which library code assigns at run time: after the value moved, the compiled kernel "
                            f"(compiled while it was {old!r}) and its interpreted source disagree", {"program": p.name, "dtype": dtype, "cls": "random", "deep": True, "args": p.gen(rng, "edge", dtype), "global": f"{modname}.{n}"})



def plan(tier, seed):
    q = tier == "quick"
    specs = [{"kind": "programs", "group": g, "reps_min": 2, "reps_edge": 6 if q else 250, "reps_random": 10 if q else 700, "reps_deep": 3 if q else 40, "budget_s": 150 if q else 600} for g in range(len(GROUPS))]
    specs.append({"kind": "special", "points": 3000 if q else 10000, "mp_points": 60 if q else 400})
    specs.append({"kind": "globals", "reps": 12 if q else 60})
    return specs


def run_shard(spec, R):
    {"programs": shard_programs, "special": shard_special, "globals": shard_globals}[spec["kind"]](spec, R)


def finalize(agg, tier):
    c = agg["counters"]
    out = []
    if c.get("programs_compared", 0) != 35:
        out.append(f"{c.get('programs_compared', 0)} of 35 programs compared")
    for p in PR.PROGRAMS:
        if c.get(f"pairs_{p.name}", 0) == 0:
            out.append(f"no compiled/interpreted pair observed for {p.name}")
    if c.get("globals_programs_scanned", 0) != 35:
        out.append(f"frozen-global monitor scanned {c.get('globals_programs_scanned', 0)} of 35 programs")
    for k in ("special_points_digamma", "special_points_gammainc", "special_points_ndtri", "mpmath_points", "signature_checks", "deep_pairs"):
        if c.get(k, 0) == 0:
            out.append(f"monitor {k} never evaluated")
    return out


def replay(case, R):
    if "program" not in case:
        R.inconclusive_because("special-function witness: re-run the special shard")
        return
    p = PR.BY_NAME[case["program"]]
    args = [getattr(np, a) if isinstance(a, str) and a in ("float32", "float64") else a for a in case["args"]]
    compare_case(R, p, case["dtype"], case.get("cls", "replay"), args, deep=bool(case.get("deep", False)))
