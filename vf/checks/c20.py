"""C20 — temporal interpolation averages the daily Whittaker curve per period.

Reference model: independent solve of (diag(template) + 1e-5 D'D) z = diag(template) * scattered data (LAPACK banded
Cholesky with extended-precision refinement; exact rationals for short records), run-length means over the labels,
half-even rounding.  Metamorphic: constant -> constant, linear in day number -> period means of the line; inputs unmodified.
"""

from __future__ import annotations

import hashlib
from fractions import Fraction

import numpy as np

from .. import harness as H

from .. import smooth as S
from ..oracles import whittaker as W

PID = "C20"
RULE = (
    "case = (observations, daily template, daily labels); 5..400 int16 observations (|values| <= 10000), mark spacings "
    "regular 5/8/10/16-day and irregular, labelings dekad-/pentad-/month-like and random run lengths, daily length up to "
    "~4000, last day marked or not. Non-trivial: series not constant. distinct = SHA-1 of (x, template, labels)."
)
ASSUMPTIONS = [
    "a +-1 difference is tolerated only where the period mean of the reference curve is within delta of a rounding tie, delta = 10 x the disagreement between the two solvers' period means + 1e-9",
    "cases where the two solvers' period means disagree by >= 0.05 (ill-conditioned 1e-5 system, C01 known finding) are counted and not compared",
    "template is binary with exactly as many marks as observations; labels are contiguous runs (the kernel's documented contract)",
]
HARD_TIMEOUT_S = {"quick": 900, "thorough": 2400}


def kernel():
    return S.K("tinterpolate")


def gen_case(rng, it, max_days=4000):
    n = int(rng.choice([5, 6, 8, 12, 36, 73, 150, 400]))
    spacing_kind = ["r5", "r8", "r10", "r16", "irregular"][H.pick(it, 1, 5)]
    if spacing_kind == "irregular":
        gaps = rng.integers(1, 25, n)
    else:
        gaps = np.full(n, int(spacing_kind[1:]))
    while gaps.sum() > max_days:
        n = max(5, n // 2)
        gaps = gaps[:n]
    start = int(rng.integers(0, 6))
    pos = start + np.cumsum(gaps) - gaps[0]
    tail = int(rng.integers(0, 12)) if H.pick(it, 2, 2) else 0  # last day marked or not
    m = int(pos[-1] + 1 + tail)
    m = max(m, 4)
    template = np.zeros(m)
    template[pos] = 1
    # contiguous labels
    lk = ["dekad", "pentad", "month", "random"][H.pick(it, 3, 4)]
    runs = []
    tot = 0
    while tot < m:
        if lk == "dekad":
            r = [10, 10, int(rng.choice([8, 9, 10, 11]))][len(runs) % 3]
        elif lk == "pentad":
            r = 5
        elif lk == "month":
            r = int(rng.choice([28, 29, 30, 31]))
        else:
            r = int(rng.integers(1, 41))
        runs.append(r)
        tot += r
    # the value of a label only names its run: increasing ids, ids wrapping over a year end (..., 35, 36, 1, 2, ...),
    # descending ids, arbitrary distinct ids incl. negative ones - always one distinct value per run
    nr = len(runs)
    ids = [np.arange(nr) + int(rng.integers(0, 1000)), (np.arange(nr) + int(rng.integers(0, nr + 1))) % nr + 1,
           np.arange(nr)[::-1] * 3 - nr, rng.permutation(np.arange(-nr, nr))[:nr]][H.pick(it, 7, 4)]
    labels = np.repeat(ids, runs)[:m].astype(np.int32)
    ykind = ["noise", "season", "const", "linear", "walk"][H.pick(it, 4, 5) if it % 7 else 2]
    if ykind == "const":
        x = np.full(n, int(rng.integers(-10000, 10001)))
    elif ykind == "linear":
        a = rng.integers(-2, 3)
        b = rng.integers(-2000, 2000)
        x = a * pos + b
    else:
        x = S.gen_series(rng, n, kind=ykind)
    x = np.clip(x, -10000, 10000).astype(np.int16)
    return x, template, labels, ykind, pos


def reference(x, template, labels, exact=False):
    m = template.size
    temp = np.zeros(m)
    temp[template != 0] = x.astype(np.float64)
    w = template.astype(np.float64)
    if exact:
        z = np.array([float(v) for v in W.solve_exact(temp, w, 1e-5)])
    else:
        z = W.solve_float(temp, 1e-5, w)
    return z


def run_means(z, labels):
    cuts = np.flatnonzero(np.diff(labels) != 0) + 1
    starts = np.concatenate([[0], cuts])
    ends = np.concatenate([cuts, [labels.size]])
    return np.array([z[a:b].mean() for a, b in zip(starts, ends)]), starts, ends


def check_case(R, x, template, labels, ykind, pos, exact=False):
    k = kernel()
    nlab = np.unique(labels).size
    tout = np.zeros(nlab, dtype=np.uint8)
    h_before = (hashlib.sha1(template.tobytes()).hexdigest(), hashlib.sha1(labels.tobytes()).hexdigest(), hashlib.sha1(x.tobytes()).hexdigest())
    case = {"x": x, "template": template, "labels": labels}
    R.evaluation()
    R.case(bool(np.ptp(x) > 0), x, template, labels)
    try:
        out = np.asarray(k(x, template, labels, tout))
    except Exception as e:
        R.violation("C20:raises", f"tinterpolate raises {type(e).__name__}: {str(e)[:150]}", case)
        return
    h_after = (hashlib.sha1(template.tobytes()).hexdigest(), hashlib.sha1(labels.tobytes()).hexdigest(), hashlib.sha1(x.tobytes()).hexdigest())
    R.count("input_hash_checks")
    if h_before != h_after:
        R.violation("C20:inputs-modified", "tinterpolate modified its template / labels / observations", case)
        return
    if out.dtype != np.int16 or out.shape != (nlab,):
        R.violation("C20:shape", f"output dtype {out.dtype} shape {out.shape}, expected int16 ({nlab},)", case)
        return
    # exactness on constant / linear inputs
    if ykind == "const":
        R.count("constant_cases")
        if not np.all(out == x[0]):
            R.violation("C20:constant", f"constant series {int(x[0])} is interpolated to {out[:8].tolist()}", case)
            return
    z_ref = reference(x, template, labels, exact=exact)
    R.count("exact_rational_references" if exact else "lapack_references")
    z_ws = S.ws2d_solver(_scatter(x, template), 1e-5, template.astype(np.float64))
    m_ref, starts, ends = run_means(z_ref, labels)
    m_ws, _, _ = run_means(z_ws, labels)
    if ykind == "linear":
        R.count("linear_cases")
        a = (int(x[-1]) - int(x[0])) / (pos[-1] - pos[0]) if pos[-1] != pos[0] else 0.0
        b = int(x[0]) - a * pos[0]
        line_means = np.array([np.mean(a * np.arange(s, e) + b) for s, e in zip(starts, ends)])
        frac = np.abs(line_means - np.floor(line_means) - 0.5)
        exp = np.round(line_means)
        bad = (out != exp) & ~((np.abs(out - exp) == 1) & (frac <= 1e-6))
        if np.all(np.abs(line_means) <= 32766) and np.any(bad):
            dis0 = float(np.max(np.abs(m_ws - line_means)))
            if dis0 >= 0.05:
                R.count("excluded_ill_conditioned")
            else:
                i = int(np.flatnonzero(bad)[0])
                R.violation("C20:linear", f"series linear in day number: period {i} (days {starts[i]}..{ends[i] - 1}) gives {int(out[i])}, the line's period mean is {line_means[i]:.6f}", case)
            return
    dis = float(np.max(np.abs(m_ref - m_ws)))
    R.note_max("max_period_mean_disagreement", dis)
    if dis >= 0.05 or not np.all(np.abs(m_ref) <= 32766):
        R.count("excluded_ill_conditioned" if dis >= 0.05 else "excluded_int16")
        return
    delta = 10 * dis + 1e-9
    exp = np.round(m_ref)
    frac = np.abs(m_ref - np.floor(m_ref) - 0.5)
    diff = out.astype(np.int64) - exp.astype(np.int64)
    bad = (diff != 0) & ~((np.abs(diff) == 1) & (frac <= delta))
    R.count("periods_compared", int(out.size))
    R.count("tie_periods_tolerated", int(np.sum(diff != 0) - np.sum(bad)))
    if np.any(bad):
        i = int(np.flatnonzero(bad)[0])
        R.violation("C20:value", f"period {i} (days {starts[i]}..{ends[i] - 1}, label {int(labels[starts[i]])}): got {int(out[i])}, mean of the daily reference curve {m_ref[i]:.6f} (delta {delta:.2g})", case)
        return
    if R.want_sample() and np.ptp(x) > 0:
        R.sample({"x": x[:10], "marks": np.flatnonzero(template)[:10], "daily_length": int(template.size), "labels_runs": (ends - starts)[:8], "out": out[:8], "reference_means": m_ref[:8]})


def _scatter(x, template):
    t = np.zeros(template.size)
    t[template != 0] = x.astype(np.float64)
    return t


def shard_kernel(spec, R):
    rng = np.random.default_rng([spec["seed"], 20, 1, spec["sub"]])
    kernel()(np.array([1, 2, 3, 4, 5], dtype=np.int16), np.array([1, 0, 1, 1, 0, 1, 1.0]), np.array([0, 0, 0, 1, 1, 1, 1], dtype=np.int32), np.zeros(2, dtype=np.uint8))
    S.K("ws2d")
    for it in range(spec["cases"]):
        if R.out_of_time():
            R.count("stopped_on_budget")
            break
        x, template, labels, ykind, pos = gen_case(rng, it, max_days=spec["max_days"])
        R.count("series_" + ykind)
        R.note_max("max_daily_length", float(template.size))
        check_case(R, x, template, labels, ykind, pos, exact=(spec["exact_every"] and it % spec["exact_every"] == 0 and template.size <= 400))


def shard_accessor(spec, R):
    import pandas as pd
    import xarray as xr
    import hdc.algo  # noqa

    rng = np.random.default_rng([spec["seed"], 20, 2, spec["sub"]])
    k = kernel()
    for it in range(spec["cases"]):
        if R.out_of_time():
            break
        x, template, labels, ykind, pos = gen_case(rng, it, max_days=600)
        n = x.size
        ny, nx = int(rng.integers(1, 3)), int(rng.integers(1, 3))
        cube = np.stack([np.stack([np.roll(x, int(rng.integers(0, n))) for _ in range(nx)]) for _ in range(ny)]).astype(np.int16)
        time = pd.Timestamp("2001-01-01") + pd.to_timedelta(pos, unit="D")
        # the statement knows no placeholder: every int16 observation counts, whatever attributes the cube carries
        # (no attribute / a value that never occurs / a value the series hits once / the value of a whole constant pixel)
        akind = H.pick(it, 5, 4)
        attrs = [{}, {"nodata": -3000}, {"nodata": int(cube[0, 0, int(rng.integers(0, n))])}, {"nodata": int(cube[-1, -1, 0]), "scale_factor": 0.0001}][akind]
        R.count(f"accessor_attrs_{['none', 'unused_value', 'value_in_series', 'value_in_series_2'][akind]}")
        da = xr.DataArray(cube, dims=["y", "x", "time"], coords={"time": time}, attrs=attrs)
        order = [("y", "x", "time"), ("time", "y", "x")][H.pick(it, 6, 2)]
        res = da.transpose(*order).hdc.whit.whitint(labels, template)
        nlab = np.unique(labels).size
        R.evaluation()
        R.count("accessor_calls")
        case = {"x": cube[0, 0], "template": template, "labels": labels}
        if res.dtype != np.int16 or "newtime" not in res.dims or res.sizes["newtime"] != nlab:
            R.violation("C20:accessor-shape", f"whitint returns dtype {res.dtype} dims {res.dims} sizes {dict(res.sizes)}, expected int16 with newtime={nlab}", case)
            continue
        out = res.transpose("y", "x", "newtime").values
        for a in range(ny):
            for b in range(nx):
                e = np.asarray(k(cube[a, b], template, labels, np.zeros(nlab, dtype=np.uint8)))
                if not np.array_equal(out[a, b], e):
                    R.violation("C20:accessor", "whitint differs from the kernel on the same pixel", {"x": cube[a, b], "template": template, "labels": labels})
                check_case(R, cube[a, b], template, labels, "roll", pos)
        if it % 4 == 1:
            # dask-backed cube: the lazy result equals the eager one; two lazy results over the same cube and template
            # with different labelings, evaluated in one graph, each keep their own period means
            import dask

            labels_b = np.concatenate([labels[:1], labels[:-1]])  # every period boundary one day later
            try:
                dd = da.transpose(*order).chunk({"time": -1, "y": 1})
                la = dd.hdc.whit.whitint(labels, template)
                lb = dd.hdc.whit.whitint(labels_b, template)
                ga, gb = dask.compute(la, lb, scheduler="synchronous")
                eb = da.transpose(*order).hdc.whit.whitint(labels_b, template)
                R.count("accessor_dask_joint_graphs")
                if not np.array_equal(ga.transpose("y", "x", "newtime").values, out):
                    R.violation("C20:accessor-dask", "lazy whitint (first of two results in one graph) differs from the eager result", dict(case, dask=True))
                elif not np.array_equal(gb.transpose("y", "x", "newtime").values, eb.transpose("y", "x", "newtime").values):
                    R.violation("C20:accessor-dask", "lazy whitint with another labeling (second of two results in one graph) differs from its eager result", dict(case, dask=True, labels_b=labels_b))
            except Exception as e:
                R.violation("C20:accessor-dask", f"whitint on a dask-backed cube raises {type(e).__name__}: {str(e)[:140]}", dict(case, dask=True))
        if it % 5 == 0:
            try:
                da.astype("float32").hdc.whit.whitint(labels, template)
                R.violation("C20:accessor-dtype", "whitint accepts non-int16 input (NotImplementedError expected)", case)
            except NotImplementedError:
                R.count("non_int16_refused")


def plan(tier, seed):
    q = tier == "quick"
    specs = [{"kind": "kernel", "sub": i, "cases": 500 if q else 15000, "max_days": 4000, "exact_every": 12 if q else 6, "budget_s": 100 if q else 600} for i in range(12 if q else 32)]
    specs += [{"kind": "accessor", "sub": i, "cases": 60 if q else 1500, "budget_s": 100 if q else 600} for i in range(4 if q else 8)]
    return specs


def run_shard(spec, R):
    {"kernel": shard_kernel, "accessor": shard_accessor}[spec["kind"]](spec, R)


def finalize(agg, tier):
    c = agg["counters"]
    out = []
    for k in ("periods_compared", "constant_cases", "linear_cases", "input_hash_checks", "exact_rational_references", "lapack_references", "accessor_calls", "non_int16_refused"):
        if c.get(k, 0) == 0:
            out.append(f"monitor/class {k} never observed")
    return out


def replay(case, R):
    x = np.asarray(case["x"], dtype=np.int16)
    template = np.asarray(case["template"], dtype=np.float64)
    labels = np.asarray(case["labels"], dtype=np.int32)
    pos = np.flatnonzero(template)
    kind = "const" if np.ptp(x) == 0 else "general"
    check_case(R, x, template, labels, kind, pos, exact=template.size <= 400)
