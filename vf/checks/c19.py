"""C19 — iterative aggregation yields exactly the complete trailing windows.

Reference model (window enumeration from the definition) against the recorded output sequence of
DataArray.hdc.iteragg.sum / mean / full: order, length, values, time stamp, agg_* attributes; labels that cannot be
located must raise ValueError.
"""

from __future__ import annotations

import itertools
import warnings

import numpy as np

from .. import harness as H
import pandas as pd

PID = "C19"
RULE = (
    "case = (axis length L, n, begin, end, method, function, dim); exhaustive for L = 1..Lmax: n in 1..L+1 (and None) x "
    "begin/end in axis U {None} x {sum, mean, full}; plus labels off the axis (between steps, before, after, garbage) with "
    "method in {None, nearest, ffill, bfill}; time and non-time dims; cubes with NaNs. Non-trivial: yields >= 1 window or must "
    "raise. Exhaustive cases are distinct by construction; off-axis cases are hashed."
)
ASSUMPTIONS = [
    "label location follows the usual index semantics: exact match without method; nearest / last <= label (ffill) / first >= label (bfill) otherwise; a label with no such position is 'not locatable'",
    "values are compared NaN-aware with 1e-12 relative tolerance (nansum / nanmean)",
]
HARD_TIMEOUT_S = {"quick": 900, "thorough": 2400}
EXHAUSTIVE = {"quick": "axis lengths 1..7: every n in 1..L+1 and None, every begin/end on the axis or None, sum/mean/full",
              "thorough": "axis lengths 1..12: every n in 1..L+1 and None, every begin/end on the axis or None, sum/mean/full"}


def locate(axis_vals, label, method):
    """Independent lookup: index of label on the (sorted, unique) axis or None."""
    try:
        if isinstance(label, str) and label.strip() == "":
            return None
        lab = np.datetime64(pd.Timestamp(label)) if np.issubdtype(axis_vals.dtype, np.datetime64) else label
        if isinstance(lab, str) and not np.issubdtype(axis_vals.dtype, np.str_):
            return None
        if lab != lab:  # NaT / NaN
            return None
    except Exception:
        return None
    n = len(axis_vals)
    eq = np.flatnonzero(axis_vals == lab)
    if eq.size:
        return int(eq[0])
    if method is None:
        return None
    if method in ("ffill", "pad"):
        k = int(np.searchsorted(axis_vals, lab, "right")) - 1
        return k if k >= 0 else None
    if method in ("bfill", "backfill"):
        k = int(np.searchsorted(axis_vals, lab, "left"))
        return k if k < n else None
    if method == "nearest":
        d = np.abs(axis_vals - lab)
        return int(np.argmin(d))
    return None


def model(L, n, b_ix, e_ix):
    """Windows (j, i): newest first, last step i-1 in [e_ix, b_ix], j = i - n >= 0."""
    hi = L if b_ix is None else b_ix + 1
    lo = 0 if e_ix is None else e_ix
    out = []
    for i in range(hi, 0, -1):
        if i - 1 < lo:
            break
        j = i - n
        if j >= 0:
            out.append((j, i))
    return out


def make_cube(rng, L, dim, with_nan, dtype="float64", freq="10D"):
    import xarray as xr

    time = pd.date_range("1999-12-30" if freq in ("6h", "D") else "2000-01-01", periods=L, freq=freq)
    data = rng.integers(-50, 50, (L, 2, 3)).astype(np.float64)
    if with_nan and np.dtype(dtype).kind == "f":
        data[rng.random(data.shape) < 0.25] = np.nan
        data[:, 0, 0] = np.nan
    data = data.astype(dtype)  # NaN-skipping must not depend on the float width (numpy's `float` is float64 only)
    if dim == "time":
        da = xr.DataArray(data, dims=["time", "y", "x"], coords={"time": time, "y": [0, 1], "x": [10, 20, 30]}, attrs={"nodata": -1})
        axis = time.values
    elif dim == "lag":  # integer labels centred on 0 (falsy label inside the axis)
        axis = np.arange(L) - L // 2
        da = xr.DataArray(data.transpose(1, 2, 0), dims=["y", "x", "lag"], coords={"lag": axis, "y": [0, 1], "x": [10, 20, 30]})
    elif dim == "depth":  # float labels containing 0.0 and negatives
        axis = (np.arange(L) - (L - 1) // 2) * 0.5
        da = xr.DataArray(data.transpose(1, 2, 0), dims=["y", "x", "depth"], coords={"depth": axis, "y": [0, 1], "x": [10, 20, 30]})
    else:
        da = xr.DataArray(data.transpose(1, 2, 0), dims=["y", "x", "band"], coords={"band": np.arange(L) * 2.5 + 1.0, "y": [0, 1], "x": [10, 20, 30]})
        axis = np.arange(L) * 2.5 + 1.0
    return da, data, axis


def run_one(R, da, data, axis, dim, fname, n, begin, end, method, b_ix, e_ix, must_raise, case, exhaustive=False):
    L = len(axis)
    kw = {"dim": dim}
    if begin is not None:
        kw["begin"] = begin
    if end is not None:
        kw["end"] = end
    if method is not None:
        kw["method"] = method
    gen = getattr(da.hdc.iteragg, fname)
    R.evaluation()
    try:
        with warnings.catch_warnings():
            warnings.simplefilter("ignore")
            got = list(gen(n, **kw))
        raised = None
    except ValueError as e:
        raised = e
    except Exception as e:
        if must_raise:
            R.violation("C19:wrong-exception", f"iteragg.{fname}(n={n}, begin={begin!r}, end={end!r}, method={method}) raises {type(e).__name__} instead of ValueError: {str(e)[:120]}", case)
        else:
            R.violation("C19:raises", f"iteragg.{fname}(n={n}, begin={begin!r}, end={end!r}, method={method}) raises {type(e).__name__}: {str(e)[:120]}", case)
        return
    if must_raise:
        R.count("must_raise_cases")
        if raised is None:
            R.violation("C19:unlocatable-label", f"iteragg.{fname}(n={n}, begin={begin!r}, end={end!r}, method={method}) yields {len(got)} results although a label cannot be located on the axis (ValueError expected)", case)
        return
    if raised is not None:
        R.violation("C19:refused", f"iteragg.{fname}(n={n}, begin={begin!r}, end={end!r}, method={method}) raises ValueError although both labels are locatable: {str(raised)[:100]}", case)
        return
    n_eff = L if n is None else n
    exp = model(L, n_eff, b_ix, e_ix)
    R.count("sequences_compared")
    R.count("windows_expected", len(exp))
    if exhaustive:
        R.enumerated(1 if exp else 0)
    if len(got) != len(exp):
        R.violation("C19:window-count", f"iteragg.{fname}(n={n}, begin={begin!r}, end={end!r}, method={method}) on {L} steps yields {len(got)} results, definition gives {len(exp)} windows {exp[:4]}", case)
        return
    tax = 0 if dim == "time" else 2
    arr = data if dim == "time" else data.transpose(1, 2, 0)
    for (j, i), g in zip(exp, got):
        sl = np.take(arr, np.arange(j, i), axis=tax)
        a = g.attrs
        if a.get("agg_start") != str(pd.Index(axis)[j]) or a.get("agg_stop") != str(pd.Index(axis)[i - 1]) or a.get("agg_n") != n_eff:
            R.violation("C19:attrs", f"window ({j},{i}): attrs agg_start={a.get('agg_start')}, agg_stop={a.get('agg_stop')}, agg_n={a.get('agg_n')}; expected {pd.Index(axis)[j]}, {pd.Index(axis)[i - 1]}, {n_eff}", case)
            return
        with warnings.catch_warnings():
            warnings.simplefilter("ignore")
            if fname == "sum":
                e = np.nansum(sl, axis=tax)
            elif fname == "mean":
                e = np.nanmean(sl, axis=tax)
            else:
                e = sl
        gv = np.asarray(g.values)
        if fname != "full" and dim == "time":
            if g.dims[0] != "time" or g.sizes["time"] != 1 or g.time.values[0] != axis[i - 1]:
                R.violation("C19:stamp", f"window ({j},{i}) is stamped {g.time.values if 'time' in g.coords else None}, expected the window's last step {axis[i - 1]}", case)
                return
            gv = gv[0]
        if fname == "full":
            if not np.array_equal(g[dim].values, axis[j:i]):
                R.violation("C19:stamp", f"full window ({j},{i}) carries coordinates {g[dim].values}, expected {axis[j:i]}", case)
                return
        rt = {2: 2e-3, 4: 1e-6}.get(arr.dtype.itemsize, 1e-12) if arr.dtype.kind == "f" else 1e-12
        if gv.shape != e.shape or not np.allclose(np.asarray(gv, dtype=np.float64), np.asarray(e, dtype=np.float64), rtol=rt, atol=0, equal_nan=True):
            R.violation("C19:value", f"iteragg.{fname} window ({j},{i}) value differs from the NaN-skipping {fname} of its slice", case)
            return
    if R.want_sample() and len(exp) >= 2:
        R.sample({"L": L, "n": n, "begin": str(begin), "end": str(end), "method": method, "fn": fname, "windows": exp[:5], "first_attrs": dict(got[0].attrs)})


def shard_exhaustive(spec, R):
    import hdc.algo  # noqa

    rng = np.random.default_rng([spec["seed"], 19, 1, spec["L"]])
    L = spec["L"]
    for dim, with_nan in (("time", False), ("time", True), ("band", False), ("lag", False), ("depth", True)):
        dtype = {"time": ["float64", "float32"][int(with_nan) ^ (L % 2)], "band": "int16", "lag": "float32", "depth": "float16"}[dim]
        R.count(f"cube_dtype_{dtype}")
        da, data, axis = make_cube(rng, L, dim, with_nan, dtype)
        labels = [None] + list(range(L))
        for fname in ("sum", "mean", "full"):
            if dim in ("band", "depth") and fname == "mean":
                continue
            if dim == "lag" and fname == "full":
                continue
            for n in [None] + list(range(1, L + 2)):
                for bi, ei in itertools.product(labels, labels):
                    if spec.get("stride") and (hash((n, bi, ei, fname, dim)) % spec["stride"]) != spec["phase"]:
                        continue
                    begin = None if bi is None else (pd.Timestamp(axis[bi]) if dim == "time" else axis[bi].item())
                    if dim == "time" and begin is not None and (bi + (ei or 0)) % 2:
                        begin = str(begin)  # string labels as in the tests
                    end = None if ei is None else (pd.Timestamp(axis[ei]) if dim == "time" else axis[ei].item())
                    case = {"L": L, "n": n, "begin_ix": bi, "end_ix": ei, "fn": fname, "dim": dim, "nan": with_nan, "dtype": dtype}
                    run_one(R, da, data, axis, dim, fname, n, begin, end, None, bi, ei, False, case, exhaustive=True)
                    R.count(f"exhaustive_L{L}")


def shard_offaxis(spec, R):
    import hdc.algo  # noqa

    rng = np.random.default_rng([spec["seed"], 19, 2, spec["sub"]])
    for it in range(spec["cases"]):
        if R.out_of_time():
            break
        L = int(rng.integers(1, 13))
        dim = ["band", "time", "time", "lag", "time", "depth"][H.pick(it, 1, 6)]
        dtype = ["float64", "float32", "float16", "int16", "int64"][H.pick(it, 4, 5)]
        R.count(f"cube_dtype_{dtype}")
        freq = ["10D", "6h", "D", "MS", "10D"][H.pick(it, 5, 5)]  # sub-daily, daily and monthly axes: a date or month string still names one step
        R.count(f"time_axis_{freq}" if dim == "time" else "non_time_axis")
        da, data, axis = make_cube(rng, L, dim, bool(H.pick(it, 2, 3) == 0), dtype, freq=freq)
        fname = ["sum", "mean", "full"][H.pick(it, 3, 3)]
        n = int(rng.integers(1, L + 2))
        method = [None, "nearest", "ffill", "bfill"][int(rng.integers(0, 4))]

        def pick(kind):
            if kind == "none":
                return None
            if kind == "on":
                k = int(rng.integers(0, L))
                return pd.Timestamp(axis[k]) if dim == "time" else axis[k].item()
            if kind == "between" and L >= 2:
                k = int(rng.integers(0, L - 1))
                return (pd.Timestamp(axis[k]) + pd.Timedelta(days=int(rng.choice([1, 2, 3, 7, 8, 9])))) if dim == "time" else float(axis[k] + rng.choice([0.4, 0.9, 1.6, 2.1]))
            if kind == "before":
                return (pd.Timestamp(axis[0]) - pd.Timedelta(days=int(rng.integers(1, 500)))) if dim == "time" else float(axis[0] - rng.uniform(0.1, 50))
            if kind == "after":
                return (pd.Timestamp(axis[-1]) + pd.Timedelta(days=int(rng.integers(1, 500)))) if dim == "time" else float(axis[-1] + rng.uniform(0.1, 50))
            if kind == "garbage":
                return str(rng.choice(["foo", "2000-13-45", ""])) if dim == "time" else (float("nan") if rng.random() < 0.5 else "foo")
            return pd.Timestamp(axis[0]) if dim == "time" else float(axis[0])

        kinds = ["none", "on", "between", "before", "after", "on", "garbage"]
        kb = kinds[int(rng.integers(0, len(kinds)))]
        ke = kinds[int(rng.integers(0, len(kinds)))]
        begin, end = pick(kb), pick(ke)
        def spell(ts):
            """A time stamp as text, as coarse as it can be while still parsing to the same instant."""
            ts = pd.Timestamp(ts)
            full = str(ts)
            opts = [full, ts.isoformat()]
            if ts == ts.normalize():
                opts += [full[:10], full[:10]]
                if ts.day == 1:
                    opts += [full[:7], full[:7]]
                    if ts.month == 1:
                        opts.append(full[:4])
            return opts[int(rng.integers(0, len(opts)))]

        if dim == "time" and begin is not None and kb != "garbage" and rng.random() < 0.6:
            begin = spell(begin)
            R.count(f"label_text_len_{len(begin)}")
        if dim == "time" and end is not None and ke != "garbage" and rng.random() < 0.6:
            end = spell(end)
            R.count(f"label_text_len_{len(end)}")
        b_ix = None if begin is None else locate(axis, begin, method)
        e_ix = None if end is None else locate(axis, end, method)
        must_raise = (begin is not None and b_ix is None) or (end is not None and e_ix is None)
        case = {"L": L, "n": n, "begin": str(begin), "end": str(end), "method": method, "fn": fname, "dim": dim, "axis": axis, "dtype": dtype, "nan": bool(np.isnan(np.asarray(data, dtype=float)).any())}
        R.case(True, L, n, str(begin), str(end), method, fname, dim)
        R.count(f"offaxis_begin_{kb}")
        R.count(f"offaxis_end_{ke}")
        run_one(R, da, data, axis, dim, fname, n, begin, end, method, b_ix, e_ix, must_raise, case)
    # non-existing dimension must raise ValueError
    da, data, axis = make_cube(rng, 4, "time", False)
    try:
        list(da.hdc.iteragg.sum(1, dim="nope"))
        R.violation("C19:refused", "iteragg over a non-existing dimension does not raise", {"dim": "nope"})
    except ValueError:
        R.count("missing_dim_raises")


def plan(tier, seed):
    q = tier == "quick"
    specs = []
    lmax = 7 if q else 12
    for L in range(1, lmax + 1):
        if L <= 9:
            specs.append({"kind": "exhaustive", "L": L})
        else:
            for ph in range(3):
                specs.append({"kind": "exhaustive", "L": L, "stride": 3, "phase": ph})
    if q:
        for L in (9, 12):
            specs.append({"kind": "exhaustive", "L": L, "stride": 12, "phase": 0})
    for i in range(5 if q else 16):
        specs.append({"kind": "offaxis", "sub": i, "cases": 250 if q else 8000, "budget_s": 100 if q else 600})
    return specs


def run_shard(spec, R):
    {"exhaustive": shard_exhaustive, "offaxis": shard_offaxis}[spec["kind"]](spec, R)


def finalize(agg, tier):
    c = agg["counters"]
    out = []
    for k in ("sequences_compared", "windows_expected", "must_raise_cases", "offaxis_begin_garbage", "offaxis_begin_between", "offaxis_end_before", "offaxis_begin_after", "missing_dim_raises"):
        if c.get(k, 0) == 0:
            out.append(f"monitor/class {k} never observed")
    for L in range(1, (7 if tier == "quick" else 12) + 1):
        if c.get(f"exhaustive_L{L}", 0) == 0:
            out.append(f"axis length {L} not enumerated")
    return out


def replay(case, R):
    import hdc.algo  # noqa

    rng = np.random.default_rng(0)
    L = int(case["L"])
    dim = case["dim"]
    da, data, axis = make_cube(rng, L, dim, bool(case.get("nan", False)), case.get("dtype", "float64"))
    n = None if case["n"] is None else int(case["n"])
    if "begin_ix" in case:
        bi, ei = case["begin_ix"], case["end_ix"]
        begin = None if bi is None else (pd.Timestamp(axis[bi]) if dim == "time" else axis[bi].item())
        end = None if ei is None else (pd.Timestamp(axis[ei]) if dim == "time" else axis[ei].item())
        run_one(R, da, data, axis, dim, case["fn"], n, begin, end, None, bi, ei, False, case)
    else:
        def parse(v):
            if v in (None, "None"):
                return None
            return pd.Timestamp(v) if dim == "time" else float(v)

        begin, end = parse(case["begin"]), parse(case["end"])
        method = case["method"]
        b_ix = None if begin is None else locate(axis, begin, method)
        e_ix = None if end is None else locate(axis, end, method)
        must = (begin is not None and b_ix is None) or (end is not None and e_ix is None)
        run_one(R, da, data, axis, dim, case["fn"], n, begin, end, method, b_ix, e_ix, must, case)
