"""C12 — results do not depend on laziness, chunking, layout or threading.

* config sweep (pair monitor): every accessor operation eager vs dask-backed under several y/x chunkings, schedulers
  (synchronous, threads with 1/2/16 workers) and dimension orders; values, dims, coords, declared and computed dtype;
  a chunked time axis must give the eager result or be refused with an error; injected delays around the kernels make
  blocks complete out of order (completion orders are recorded);
* pixel independence: permuting pixels permutes results, a pixel alone equals the pixel inside the cube;
* prange kernel under 1..16 threads, both threading layers, several chunk sizes: bit-identical;
* lazy-compilation race: N threads make the first call of a lazily compiled kernel while a sys.monitoring LINE
  callback injects sleeps between the ``is None`` test and the assignment; the closure cell is reset between rounds.
"""

from __future__ import annotations

import itertools
import os
import random
import sys
import threading
import time
import warnings

import numpy as np

PID = "C12"
RULE = (
    "case = (operation, configuration) with configuration = (dim order, y/x chunking, scheduler) differing from eager "
    "single-chunk, a pixel-permutation pair, a (thread count, chunk size, threading layer) run of the prange kernel, or a race "
    "round with >= 2 threads at the compile line. distinct = SHA-1 of (operation, configuration, data)."
)
ASSUMPTIONS = [
    "interleavings of the lazy-compilation race are sampled with injected yields, not enumerated; Numba's own compiler lock is trusted",
    "DataArray names are not compared (not part of the property)",
    "a time-chunked input that dask/xarray refuses with an exception counts as 'refused' (allowed), never as held",
]
HARD_TIMEOUT_S = {"quick": 1200, "thorough": 5400}

NODATA = -3000


# ----------------------------------------------------------------------------- operations
def make_cube(rng, nt=12, ny=4, nx=4, kind="int16"):  # square grid: a positional y/x mix-up would not even raise
    import pandas as pd
    import xarray as xr

    t = np.arange(nt)
    base = 3000 + 2000 * np.sin(2 * np.pi * t / 9.0)[:, None, None] + rng.normal(0, 300, (nt, ny, nx))
    cube = np.clip(np.round(base), 1, 9000)
    cube[rng.random(cube.shape) < 0.08] = NODATA
    cube[:, 0, 0] = NODATA  # an all-missing pixel
    da = xr.DataArray(cube.astype(kind), dims=["time", "y", "x"],
                      coords={"time": pd.date_range("2000-01-01", periods=nt, freq="10D"), "y": np.arange(ny) * 1.0, "x": np.arange(nx) * 1.0},
                      attrs={"nodata": NODATA}, name="band")
    return da


def op_table(rng, da):
    """name -> (callable(DataArray) -> DataArray|Dataset, needs) ; auxiliary rasters are created here once."""
    import xarray as xr

    nt, ny, nx = da.sizes["time"], da.sizes["y"], da.sizes["x"]
    sg = xr.DataArray(rng.uniform(-1, 2, (ny, nx)), dims=["y", "x"], coords={"y": da.y, "x": da.x})
    lc = xr.DataArray(rng.choice([0.1, 0.9, 0.5, np.nan], (ny, nx)), dims=["y", "x"], coords={"y": da.y, "x": da.x})
    zones = xr.DataArray(rng.integers(0, 3, (ny, nx)).astype("int16"), dims=["y", "x"], coords={"y": da.y, "x": da.x}, attrs={"nodata": -1})
    srange = np.arange(-1.0, 2.0, 0.5)
    groups = [str(g) for g in (np.arange(nt) % 3)]
    igroups = (np.arange(nt) % 3).astype("int16")
    # daily template for whitint: observations every 10 days
    m = 10 * (nt - 1) + 1
    template = np.zeros(m)
    template[::10] = 1
    labels = (np.arange(m) // 7).astype(np.int32)
    binary = lambda d: (d > 3000).astype("uint8")
    ops = {
        "whits_s": lambda d: d.hdc.whit.whits(nodata=NODATA, s=10.0),
        "whits_sg_p": lambda d: d.hdc.whit.whits(nodata=NODATA, sg=sg, p=0.8),
        "whitsvc": lambda d: d.hdc.whit.whitsvc(nodata=NODATA, srange=srange),
        "whitsvc_p": lambda d: d.hdc.whit.whitsvc(nodata=NODATA, srange=srange, p=0.8),
        "whitsvc_lc": lambda d: d.hdc.whit.whitsvc(nodata=NODATA, lc=lc, p=0.8),
        "whitswcv": lambda d: d.hdc.whit.whitswcv(nodata=NODATA, srange=srange),
        "whitswcv_p": lambda d: d.hdc.whit.whitswcv(nodata=NODATA, srange=srange, p=0.8, robust=False),
        "whitint": lambda d: d.hdc.whit.whitint(labels, template),
        "spi": lambda d: d.hdc.algo.spi(),
        "spi_grouped": lambda d: d.hdc.algo.spi(groups=groups),
        "mean_grp": lambda d: d.hdc.algo.mean_grp(igroups),
        "rolling_sum": lambda d: d.hdc.rolling.sum(3),
        "rolling_sum_f64": lambda d: d.hdc.rolling.sum(2, dtype="float64"),
        "spi_f32": lambda d: d.hdc.algo.spi(dtype="float32"),
        "autocorr": lambda d: d.hdc.algo.autocorr(),
        "mktrend": lambda d: d.hdc.algo.mktrend(),
        "lroo": lambda d: binary(d).hdc.algo.lroo(),
        "croo": lambda d: binary(d).hdc.algo.croo(),
        "zonal_mean": lambda d: d.hdc.zonal.mean(zones, [0, 1, 2]),
        "zonal_mean_lazy_zones": lambda d: d.hdc.zonal.mean(zones.chunk({"y": d.chunksizes["y"], "x": d.chunksizes["x"]}) if d.chunks else zones, [0, 1, 2], dtype="float64"),
    }
    return ops


def sibling_table(rng, da):
    """name -> the same operation with OTHER auxiliary inputs of the same shape / dtype (another lambda, grid, labelling,
    grouping, window, zone raster).  Two lazy results over one cube that differ only in such an input must not share
    anything in the graph they are evaluated in."""
    import xarray as xr

    nt, ny, nx = da.sizes["time"], da.sizes["y"], da.sizes["x"]
    sg2 = xr.DataArray(rng.uniform(-1, 2, (ny, nx)), dims=["y", "x"], coords={"y": da.y, "x": da.x})
    lc2 = xr.DataArray(rng.choice([0.9, 0.1], (ny, nx)), dims=["y", "x"], coords={"y": da.y, "x": da.x})
    zones2 = xr.DataArray(rng.integers(0, 3, (ny, nx)).astype("int16"), dims=["y", "x"], coords={"y": da.y, "x": da.x}, attrs={"nodata": -1})
    srange2 = np.arange(-1.0, 2.0, 0.5) + 0.25
    groups2 = [str(g) for g in (np.arange(nt) // 4)]
    igroups2 = (np.arange(nt) // 4).astype("int16")
    m = 10 * (nt - 1) + 1
    template = np.zeros(m)
    template[::10] = 1
    labels2 = ((np.arange(m) + 3) // 7).astype(np.int32)
    return {
        "whits_s": lambda d: d.hdc.whit.whits(nodata=NODATA, s=1000.0),
        "whits_sg_p": lambda d: d.hdc.whit.whits(nodata=NODATA, sg=sg2, p=0.8),
        "whitsvc": lambda d: d.hdc.whit.whitsvc(nodata=NODATA, srange=srange2),
        "whitsvc_p": lambda d: d.hdc.whit.whitsvc(nodata=NODATA, srange=srange2, p=0.8),
        "whitsvc_lc": lambda d: d.hdc.whit.whitsvc(nodata=NODATA, lc=lc2, p=0.8),
        "whitswcv": lambda d: d.hdc.whit.whitswcv(nodata=NODATA, srange=srange2),
        "whitswcv_p": lambda d: d.hdc.whit.whitswcv(nodata=NODATA, srange=srange2, p=0.8, robust=False),
        "whitint": lambda d: d.hdc.whit.whitint(labels2, template),
        "spi_grouped": lambda d: d.hdc.algo.spi(groups=groups2),
        "mean_grp": lambda d: d.hdc.algo.mean_grp(igroups2),
        "rolling_sum": lambda d: d.hdc.rolling.sum(2),
        "zonal_mean": lambda d: d.hdc.zonal.mean(zones2, [0, 1, 2], name="zm"),
    }


ORDERS = {"time_first": ("time", "y", "x"), "time_last": ("y", "x", "time"), "time_middle": ("y", "time", "x"),
          "time_first_xy": ("time", "x", "y"), "time_last_xy": ("x", "y", "time")}  # x before y: auxiliary rasters must be matched by name


def chunkings(ny, nx):
    return {"single": {"y": -1, "x": -1}, "pixel": {"y": 1, "x": 1}, "ragged": {"y": (1, ny - 1) if ny > 1 else (1,), "x": (2, nx - 2) if nx > 3 else -1}}


def as_vars(res):
    import xarray as xr

    if isinstance(res, xr.Dataset):
        return {k: res[k] for k in res.data_vars}
    return {"": res}


def equal_results(a, b, what):
    """a, b: DataArray|Dataset.  Returns None or a message."""
    va, vb = as_vars(a), as_vars(b)
    if set(va) != set(vb):
        return f"{what}: variables {sorted(va)} vs {sorted(vb)}"
    for k in va:
        x, y = va[k], vb[k]
        if x.dims != y.dims:
            return f"{what}: dims {x.dims} vs {y.dims} ({k})"
        if x.dtype != y.dtype:
            return f"{what}: dtype {x.dtype} vs {y.dtype} ({k})"
        if not np.array_equal(np.asarray(x.values), np.asarray(y.values), equal_nan=(x.dtype.kind == "f")):
            return f"{what}: values differ ({k}); first differing index {np.argwhere(np.asarray(x.values) != np.asarray(y.values))[:1].tolist()}"
        for c in x.coords:
            if c in y.coords and x[c].shape == y[c].shape and x[c].dtype.kind in "fiuM" and not np.array_equal(x[c].values, y[c].values):
                return f"{what}: coordinate {c} differs"
        if set(x.coords) != set(y.coords):
            return f"{what}: coordinates {sorted(x.coords)} vs {sorted(y.coords)} ({k})"
    return None


class Delayer:
    """Boundary wrapper installed around the kernels: seeded sleep before returning, completion log."""

    def __init__(self, seed):
        self.rng = random.Random(seed)
        self.lock = threading.Lock()
        self.log = []
        self.enabled = False

    def wrap(self, name, fn):
        def wrapped(*a, **k):
            r = fn(*a, **k)
            if self.enabled:
                with self.lock:
                    d = self.rng.random() * 0.004
                time.sleep(d)
                with self.lock:
                    self.log.append((name, threading.get_ident()))
            return r

        wrapped.__wrapped_kernel__ = fn
        return wrapped

    def install(self):
        import hdc.algo.ops as ops
        import hdc.algo.ops.stats as st
        import hdc.algo.ops.zonal as zn

        for mod, names in ((ops, ["ws2dgu", "ws2dpgu", "ws2doptv", "ws2doptvp", "ws2doptvplc", "ws2dwcv", "ws2dwcvp", "tinterpolate", "lroo", "autocorr", "autocorr_tyx"]),
                           (st, ["gammastd_yxt", "gammastd_grp", "mean_grp", "rolling_sum", "_mann_kendall_trend_gu", "_mann_kendall_trend_gu_nd"]), (zn, ["do_mean"])):
            for n in names:
                setattr(mod, n, self.wrap(n, getattr(mod, n)))


def shard_sweep(spec, R):
    import dask
    import xarray as xr
    import hdc.algo  # noqa

    rng = np.random.default_rng([spec["seed"], 12, 1, spec["sub"]])
    delayer = Delayer(spec["seed"] * 1000 + spec["sub"])
    delayer.install()
    da = make_cube(rng, kind=spec.get("cube_dtype", "int16"))
    R.count(f"sweep_cube_{spec.get('cube_dtype', 'int16')}")
    ops = op_table(rng, da)
    siblings = sibling_table(rng, da)
    import xarray as xr
    zones_for_joint = xr.DataArray(np.random.default_rng(5).integers(0, 3, (da.sizes["y"], da.sizes["x"])).astype("int16"), dims=["y", "x"], coords={"y": da.y, "x": da.x}, attrs={"nodata": -1})
    names = [n for n in ops if n in spec["ops"]]
    completion_orders = {}
    for name in names:
        f = ops[name]
        orders = list(ORDERS)
        eager = {}
        for o in orders:
            d0 = da.transpose(*ORDERS[o])
            with warnings.catch_warnings():
                warnings.simplefilter("ignore")
                try:
                    eager[o] = f(d0)
                except Exception as e:
                    R.violation(f"C12:eager-raises:{name}", f"{name} on in-memory data (dims {ORDERS[o]}) raises {type(e).__name__}: {str(e)[:120]}", {"op": name, "order": o})
        if len(eager) != len(orders):
            continue
        # layout independence of the eager result itself
        ref = eager[orders[0]]
        for o in orders[1:]:
            R.count("layout_pairs")
            va, vb = as_vars(ref), as_vars(eager[o])
            for k in va:
                canon = [dd for dd in ("y", "x", "time", "newtime", "zones", "stat") if dd in va[k].dims]
                if set(va[k].dims) != set(vb[k].dims):
                    R.violation(f"C12:layout:{name}", f"{name}: dims {va[k].dims} vs {vb[k].dims} for order {o}", {"op": name, "order": o})
                    continue
                if set(va[k].dims) != set(vb[k].dims) or not np.array_equal(va[k].transpose(*canon).values, vb[k].transpose(*canon).values, equal_nan=va[k].dtype.kind == "f"):
                    R.violation(f"C12:layout:{name}", f"{name}: result depends on the dimension order ({orders[0]} vs {o}), variable {k!r}", {"op": name, "order": o})
        cfgs = list(itertools.product(orders, chunkings(da.sizes["y"], da.sizes["x"]).items(), spec["schedulers"]))
        rng.shuffle(cfgs)
        for o, (cname, ch), sched in cfgs[: spec["configs_per_op"]]:
            if R.out_of_time():
                R.count("stopped_on_budget")
                break
            d1 = da.transpose(*ORDERS[o]).chunk({"time": -1, **ch})
            case = {"op": name, "order": o, "chunking": cname, "scheduler": sched}
            R.evaluation()
            R.case(True, name, o, cname, str(sched), da.values)
            R.count(f"configs_{name}")
            try:
                with warnings.catch_warnings():
                    warnings.simplefilter("ignore")
                    lazy = f(d1)
                    declared = {k: v.dtype for k, v in as_vars(lazy).items()}
                    is_lazy = all(hasattr(v.data, "dask") for v in as_vars(lazy).values())
                    delayer.enabled = sched != "synchronous"
                    delayer.log.clear()
                    kw = {"scheduler": "synchronous"} if sched == "synchronous" else {"scheduler": "threads", "num_workers": sched}
                    with dask.config.set(**kw):
                        got = lazy.compute()
                    delayer.enabled = False
            except Exception as e:
                delayer.enabled = False
                R.violation(f"C12:lazy-raises:{name}", f"{name} on dask input (order {o}, chunks {cname}, scheduler {sched}) raises {type(e).__name__}: {str(e)[:150]}", case)
                continue
            if not is_lazy:
                R.count("eagerly_evaluated_on_dask_input")
            if sched != "synchronous" and len(delayer.log) > 1:
                completion_orders.setdefault(name, set()).add(tuple(t for _, t in delayer.log))
            mism = [(k, dt, as_vars(got)[k].dtype) for k, dt in declared.items() if dt != as_vars(got)[k].dtype]
            if mism:
                k, dt, cdt = mism[0]
                R.violation(f"C12:declared-dtype:{name}", f"{name}: the lazy result declares dtype {dt} but computes {cdt} (variable {k!r}; eager dtype {as_vars(eager[o])[k].dtype})", case)
                continue
            msg = equal_results(eager[o], got, f"{name} eager vs dask (order {o}, chunks {cname}, scheduler {sched})")
            if msg:
                R.violation(f"C12:lazy-vs-eager:{name}", msg, case)
                continue
        # warnings escalated to errors (python -W error, pytest filterwarnings=error): whatever happens, it happens the same
        # way for in-memory and for dask-backed data (a guard that only covers the eager evaluation splits the two)
        if da.dtype == np.int16:
            def under_w_error(fn):
                with warnings.catch_warnings():
                    warnings.simplefilter("error")
                    try:
                        r_ = fn()
                        return ("ok", r_)
                    except Exception as e_:
                        return ("raise", type(e_).__name__ + ": " + str(e_)[:60])
            ew = under_w_error(lambda: f(da))
            d1w = da.chunk({"time": -1, "y": 2, "x": -1})
            lw = under_w_error(lambda: f(d1w).compute(scheduler="synchronous"))
            R.count("warnings_as_errors_pairs")
            if ew[0] != lw[0] or (ew[0] == "raise" and ew[1].split(":")[0] != lw[1].split(":")[0]):
                R.violation(f"C12:warnings-as-errors:{name}", f"{name} with warnings escalated to errors: in memory {ew[0]} {ew[1] if ew[0] == 'raise' else ''}, dask-backed {lw[0]} {lw[1] if lw[0] == 'raise' else ''}", {"op": name})
            elif ew[0] == "ok":
                msg = equal_results(ew[1], lw[1], f"{name} under warnings-as-errors, eager vs dask")
                if msg:
                    R.violation(f"C12:warnings-as-errors:{name}", msg, {"op": name})
        # two lazy results over the same cube that differ only in an auxiliary input, evaluated in ONE graph
        if name in siblings and da.dtype == np.int16:
            g2 = siblings[name]
            f1 = (lambda d: d.hdc.zonal.mean(zones_for_joint, [0, 1, 2], name="zm")) if name == "zonal_mean" else f
            d1 = da.chunk({"time": -1, "y": 2, "x": -1})
            try:
                with warnings.catch_warnings():
                    warnings.simplefilter("ignore")
                    ea, eb = f1(da), g2(da)
                    la, lb = f1(d1), g2(d1)
                    ga, gb = dask.compute(la, lb, scheduler="synchronous")
                R.count("joint_graph_pairs")
                for tag, e_, g_ in (("first", ea, ga), ("second", eb, gb)):
                    msg = equal_results(e_, g_, f"{name}: {tag} of two lazy results (different auxiliary input) computed in one graph")
                    if msg:
                        R.violation(f"C12:joint-graph:{name}", msg, {"op": name})
                        break
            except Exception as e:
                R.violation(f"C12:lazy-raises:{name}", f"{name}: two lazy results evaluated in one graph raise {type(e).__name__}: {str(e)[:150]}", {"op": name})
        # a chunked time axis: eager result or an error
        if name not in ("croo",):
            d2 = da.chunk({"time": 5, "y": -1, "x": -1})
            R.count("time_chunked_attempts")
            try:
                with warnings.catch_warnings():
                    warnings.simplefilter("ignore")
                    with dask.config.set(scheduler="synchronous"):
                        got = f(d2).compute()
                msg = equal_results(eager["time_first"], got, f"{name} with a chunked time axis")
                if msg:
                    R.violation(f"C12:time-chunks:{name}", msg + " (neither the eager result nor an error)", {"op": name, "chunking": "time=5"})
                else:
                    R.count("time_chunked_honoured")
            except Exception:
                R.count("time_chunked_refused")
    R.note("completion_orders_seen", {k: len(v) for k, v in completion_orders.items()})
    R.count("ops_with_2plus_completion_orders", sum(1 for v in completion_orders.values() if len(v) >= 2))
    R.sample({"ops": names, "cube_shape": list(da.shape), "completion_orders": {k: len(v) for k, v in completion_orders.items()}})


def shard_pixels(spec, R):
    """Permuting pixels permutes results; a pixel alone equals the pixel in the cube."""
    import hdc.algo  # noqa

    rng = np.random.default_rng([spec["seed"], 12, 2, spec["sub"]])
    for rep in range(spec["reps"] + 1):
        if rep == spec["reps"]:
            # one large cube: size- or shape-gated code paths (threading, tiling) must keep pixels independent too
            da = make_cube(rng, nt=24, ny=40, nx=40)
            R.count("large_cube_pixel_pairs")
        else:
            da = make_cube(rng, nt=int(rng.choice([9, 12, 20])), ny=3, nx=4)
        ops = op_table(rng, da)
        ny, nx = da.sizes["y"], da.sizes["x"]
        perm = rng.permutation(ny * nx)
        flat = da.values.reshape(da.sizes["time"], -1)
        dp = da.copy(data=flat[:, perm].reshape(da.shape))
        for name in spec["ops"]:
            if name in ("whits_sg_p", "whitsvc_lc", "zonal_mean", "zonal_mean_lazy_zones"):
                continue  # per-pixel auxiliary rasters would have to be permuted too; covered by the per-pixel comparison of C03/C04
            f = ops[name]
            with warnings.catch_warnings():
                warnings.simplefilter("ignore")
                a, b = as_vars(f(da)), as_vars(f(dp))
            R.evaluation()
            R.case(True, "perm", name, da.values, perm)
            R.count("permutation_pairs")
            for k in a:
                x = a[k].transpose(*[d for d in a[k].dims if d not in ("y", "x")], "y", "x").values
                y = b[k].transpose(*[d for d in b[k].dims if d not in ("y", "x")], "y", "x").values
                xf = x.reshape(x.shape[:-2] + (-1,))[..., perm]
                yf = y.reshape(y.shape[:-2] + (-1,))
                if not np.array_equal(xf, yf, equal_nan=x.dtype.kind == "f"):
                    R.violation(f"C12:pixel-permutation:{name}", f"{name}: permuting the pixels does not permute the result (variable {k!r})", {"op": name, "perm": perm, "cube": da.values})
                    break
            # one pixel alone
            py, px = int(rng.integers(0, ny)), int(rng.integers(0, nx))
            with warnings.catch_warnings():
                warnings.simplefilter("ignore")
                one = as_vars(f(da.isel(y=[py], x=[px])))
            R.count("pixel_alone_pairs")
            for k in a:
                full = a[k].isel(y=[py], x=[px])
                if not np.array_equal(full.values, one[k].values, equal_nan=full.dtype.kind == "f"):
                    R.violation(f"C12:pixel-alone:{name}", f"{name}: pixel ({py},{px}) computed alone differs from the same pixel inside the cube (variable {k!r})", {"op": name, "pixel": [py, px], "cube": da.values})
                    break


def shard_threads(spec, R):
    """prange kernel: bit-identical for every thread count / chunk size (threading layer chosen by the shard's env)."""
    import numba
    from .. import smooth as S

    rng = np.random.default_rng([spec["seed"], 12, 3])
    nt, nr, nc = 36, 64, 32
    t = np.arange(nt)
    cube = np.clip(np.round(3000 + 2000 * np.sin(2 * np.pi * t / 17.0)[:, None, None] * rng.uniform(0.2, 1.0, (1, nr, nc)) + rng.normal(0, 250, (nt, nr, nc))), 1, 9000)
    cube[rng.random(cube.shape) < 0.1] = NODATA
    cube[:, 3, 4] = NODATA
    cube = cube.astype(np.int16)
    tyx = S.K("ws2doptvplc_tyx")
    numba.set_num_threads(1)
    ref_z, ref_l = tyx(cube, 0.85, NODATA)
    layer = numba.threading_layer()
    R.note("threading_layer", layer)
    R.count(f"layer_{layer}")
    # per-pixel gufunc with the pixel's own autocorrelation
    ac = S.K("autocorr_1d")
    mism = 0
    for a in range(0, nr, 7):
        for b in range(0, nc, 5):
            y = np.ascontiguousarray(cube[:, a, b])
            if (y != NODATA).sum() < 2:
                continue
            eb, el = S.call("ws2doptvplc", y, float(NODATA), {"p": 0.85, "lc": float(ac(y, NODATA))})
            R.count("tyx_vs_gufunc_pixels")
            if float(el) != float(ref_l[a, b]) or not np.array_equal(eb, ref_z[:, a, b]):
                mism += 1
    if mism:
        R.violation("C12:tyx-vs-gufunc", f"ws2doptvplc_tyx (1 thread) differs from the per-pixel gufunc on {mism} sampled pixels", {"layer": layer})
    seen = set()
    for nthreads in spec["threads"]:
        if nthreads > numba.config.NUMBA_NUM_THREADS:
            continue
        for cs in spec["chunksizes"]:
            for rep in range(spec["reps"]):
                numba.set_num_threads(nthreads)
                try:
                    numba.set_parallel_chunksize(cs)
                except Exception:
                    pass
                z, l = tyx(cube, 0.85, NODATA)
                R.evaluation()
                R.case(nthreads > 1, "threads", layer, nthreads, cs, rep)
                R.count("thread_runs")
                seen.add((nthreads, cs))
                if not np.array_equal(z, ref_z) or not np.array_equal(l, ref_l):
                    bad = int(np.sum(np.any(z != ref_z, axis=0)))
                    R.violation("C12:thread-count", f"ws2doptvplc_tyx with {nthreads} threads (chunksize {cs}, layer {layer}) differs from the 1-thread result on {bad} pixels", {"layer": layer, "threads": nthreads, "chunksize": cs})
                    break
    numba.set_parallel_chunksize(0)
    R.note("thread_configs", sorted(seen))
    R.sample({"layer": layer, "cube": [nt, nr, nc], "configs": len(seen)})


def shard_race(spec, R):
    """Concurrent first use of one lazily compiled kernel."""
    from .. import programs as PR
    import hdc.algo.ops._helper as helper  # noqa

    name = spec["kernel"]
    p = PR.BY_NAME[name]
    rng = np.random.default_rng([spec["seed"], 12, 4, PR.PROGRAMS.index(p)])
    wrapper = p.get()
    fv = wrapper.__code__.co_freevars
    if "inner_decorated" not in fv:
        R.inconclusive_because(f"{name}: closure cell 'inner_decorated' not found (free variables {fv})")
        return
    cell = wrapper.__closure__[fv.index("inner_decorated")]
    if cell.cell_contents is not None:
        R.inconclusive_because(f"{name} was already compiled before the race")
        return
    code = wrapper.__code__
    import inspect

    src, start = inspect.getsourcelines(wrapper.__code__)  # not the @wraps target
    line_assign = start + [i for i, l in enumerate(src) if "inner_decorated = internal_decorator(f)" in l][0]
    line_test = start + [i for i, l in enumerate(src) if "if inner_decorated is None" in l][0]
    mon = sys.monitoring
    TOOL = 3
    mon.use_tool_id(TOOL, "verif-c12")
    lock = threading.Lock()
    events = []
    jitter = random.Random(spec["seed"] * 7919 + PR.PROGRAMS.index(p))

    def on_line(c, line):
        if c is not code:
            return mon.DISABLE
        if line == line_assign:
            with lock:
                events.append(("compile", threading.get_ident()))
                d = jitter.random() * 0.002
            time.sleep(d)  # yield between the None test and the assignment
        elif line == line_test:
            with lock:
                events.append(("test", threading.get_ident()))
        return None

    mon.register_callback(TOOL, mon.events.LINE, on_line)
    mon.set_local_events(TOOL, code, mon.events.LINE)
    old_switch = sys.getswitchinterval()
    sys.setswitchinterval(1e-5)
    args_list = [p.gen(rng, "edge" if i % 2 else "random", p.dtypes[0]) for i in range(max(spec["threads"]))]
    try:
        for rnd, nthreads in enumerate(spec["threads"]):
            cell.cell_contents = None
            events.clear()
            barrier = threading.Barrier(nthreads)
            results = [None] * nthreads
            errors = [None] * nthreads

            def work(i):
                try:
                    barrier.wait()
                    with warnings.catch_warnings():
                        warnings.simplefilter("ignore")
                        results[i] = wrapper(*args_list[i])
                except BaseException as e:  # noqa
                    errors[i] = e

            th = [threading.Thread(target=work, args=(i,)) for i in range(nthreads)]
            for t_ in th:
                t_.start()
            for t_ in th:
                t_.join(spec.get("join_s", 600))
            alive = [t_ for t_ in th if t_.is_alive()]
            R.evaluation()
            ncompile = len({tid for ev, tid in events if ev == "compile"})
            sig = tuple(ev for ev, _ in events)
            R.case(ncompile >= 2, "race", name, rnd, sig)
            R.count("race_rounds")
            R.count("race_rounds_with_2plus_compilers", int(ncompile >= 2))
            R.count("threads_at_compile_line", ncompile)
            sigs_seen = locals().setdefault("_sigs", [])
            sigs_seen.append("".join("c" if e == "compile" else "t" for e in sig))
            R.note("interleaving_signatures", {name: sorted(set(sigs_seen))})
            case = {"kernel": name, "threads": nthreads, "round": rnd}
            if alive:
                R.inconclusive_because(f"{name}: {len(alive)} racing threads still running after the watchdog")
                return
            bad = [e for e in errors if e is not None]
            if bad:
                R.violation(f"C12:race-exception", f"{name}: concurrent first call from {nthreads} threads raises {type(bad[0]).__name__}: {str(bad[0])[:150]} ({ncompile} threads compiled)", case)
                continue
            if not callable(cell.cell_contents):
                R.violation("C12:race-cell", f"{name}: after the race the cached kernel is {cell.cell_contents!r}", case)
                continue
            from .c14 import same

            for i in range(nthreads):
                with warnings.catch_warnings():
                    warnings.simplefilter("ignore")
                    ref = wrapper(*args_list[i])
                ra = results[i] if isinstance(results[i], tuple) else (results[i],)
                rb = ref if isinstance(ref, tuple) else (ref,)
                if not same(tuple(np.asarray(x) for x in ra), tuple(np.asarray(x) for x in rb)):
                    R.violation("C12:race-result", f"{name}: result obtained during the race (thread {i} of {nthreads}) differs from the single-threaded result", case)
                    break
    finally:
        sys.setswitchinterval(old_switch)
        mon.set_local_events(TOOL, code, 0)
        mon.free_tool_id(TOOL)
    R.sample({"kernel": name, "rounds": len(spec["threads"]), "events_last_round": ["".join("c" if e == "compile" else "t" for e, _ in events)]})


def shard_firstcall(spec, R):
    """dask threaded compute as the very first use of the kernels in this process."""
    import dask
    import hdc.algo  # noqa

    rng = np.random.default_rng([spec["seed"], 12, 5])
    da = make_cube(rng, nt=12, ny=4, nx=4)
    ops = op_table(rng, da)
    for name in spec["ops"]:
        d1 = da.transpose("y", "x", "time").chunk({"y": 1, "x": 1, "time": -1})
        R.evaluation()
        R.case(True, "firstcall", name)
        R.count("first_call_under_threads")
        try:
            with warnings.catch_warnings():
                warnings.simplefilter("ignore")
                with dask.config.set(scheduler="threads", num_workers=8):
                    got = ops[name](d1).compute()
                eager = ops[name](da.transpose("y", "x", "time"))
        except Exception as e:
            R.violation("C12:race-exception", f"{name}: first use under the threaded scheduler raises {type(e).__name__}: {str(e)[:150]}", {"op": name})
            continue
        msg = equal_results(eager, got, f"{name} first call under threads")
        if msg:
            R.violation("C12:race-result", msg, {"op": name})


ALL_OPS = ["whits_s", "whits_sg_p", "whitsvc", "whitsvc_p", "whitsvc_lc", "whitswcv", "whitswcv_p", "whitint", "spi", "spi_grouped", "spi_f32", "mean_grp", "rolling_sum", "rolling_sum_f64",
           "autocorr", "mktrend", "lroo", "croo", "zonal_mean", "zonal_mean_lazy_zones"]
LAZY_KERNELS = ["ws2dgu", "ws2dpgu", "ws2doptv", "ws2doptvp", "ws2doptvplc", "ws2dwcv", "ws2dwcvp", "gammastd_grp", "_mann_kendall_trend_gu_nd", "_mann_kendall_trend_gu",
                "mean_grp", "rolling_sum", "lroo", "tinterpolate", "autocorr", "autocorr_tyx", "do_mean", "ws2doptvplc_tyx"]


OPS_BY_DTYPE = {
    "float64": ["whits_s", "whits_sg_p", "whitsvc", "whitsvc_p", "whitswcv", "whitswcv_p", "spi", "spi_f32", "zonal_mean", "zonal_mean_lazy_zones"],
    "float32": ["whits_s", "whitsvc", "whitswcv_p", "spi", "spi_grouped", "mean_grp", "rolling_sum", "rolling_sum_f64", "mktrend", "zonal_mean"],
    "int32": ["whits_sg_p", "whitsvc_p", "whitswcv", "spi", "mean_grp", "rolling_sum", "autocorr", "zonal_mean_lazy_zones"],
}


def plan(tier, seed):
    q = tier == "quick"
    specs = []
    groups = [ALL_OPS[i::6] for i in range(6)]
    for i, g in enumerate(groups):
        specs.append({"kind": "sweep", "sub": i, "ops": g, "configs_per_op": 5 if q else 60, "schedulers": ["synchronous", 1, 2, 16], "budget_s": 240 if q else 600})
    # other stored dtypes: float64 reaches the float64[:] gufuncs without a casting copy, so the kernel sees the real strides
    # of every dimension order; only the operations whose kernels accept the dtype are swept
    for j, (dt, names) in enumerate(OPS_BY_DTYPE.items()):
        for h in range(2):
            specs.append({"kind": "sweep", "sub": 10 + 2 * j + h, "cube_dtype": dt, "ops": names[h::2], "configs_per_op": 3 if q else 30, "schedulers": ["synchronous", 2], "budget_s": 240 if q else 600})
    specs.append({"kind": "pixels", "sub": 0, "ops": [o for o in ALL_OPS], "reps": 1 if q else 12})
    for layer in ("omp", "workqueue"):
        specs.append({"kind": "threads", "env": {"NUMBA_THREADING_LAYER": layer}, "threads": [2, 3, 8, 16] if q else list(range(2, 17)), "chunksizes": [0, 1, 3] if not q else [0, 1], "reps": 2 if q else 10})
    race = ["lroo", "rolling_sum", "ws2dgu", "do_mean"] if q else LAZY_KERNELS
    for k in race:
        cheap = k in ("lroo", "rolling_sum")
        specs.append({"kind": "race", "kernel": k, "threads": ([4, 8] if q else ([4, 4, 4, 8] + ([16] if cheap else [])))})
    specs.append({"kind": "firstcall", "ops": ["whits_s", "rolling_sum", "lroo"] if q else ["whits_s", "whitsvc_p", "spi_grouped", "mean_grp", "rolling_sum", "lroo", "mktrend"]})
    return specs


def run_shard(spec, R):
    {"sweep": shard_sweep, "pixels": shard_pixels, "threads": shard_threads, "race": shard_race, "firstcall": shard_firstcall}[spec["kind"]](spec, R)


def finalize(agg, tier):
    c = agg["counters"]
    out = []
    for n in ALL_OPS:
        if c.get(f"configs_{n}", 0) == 0:
            out.append(f"operation {n} never compared eager vs lazy")
    for k in ("layout_pairs", "permutation_pairs", "pixel_alone_pairs", "thread_runs", "tyx_vs_gufunc_pixels", "race_rounds", "first_call_under_threads", "time_chunked_attempts", "layer_omp", "layer_workqueue", "joint_graph_pairs", "sweep_cube_float64", "sweep_cube_float32", "sweep_cube_int32"):
        if c.get(k, 0) == 0:
            out.append(f"monitor/class {k} never observed")
    if c.get("race_rounds_with_2plus_compilers", 0) == 0:
        out.append("no race round had two threads at the compile line")
    if c.get("ops_with_2plus_completion_orders", 0) == 0:
        out.append("injected delays never produced two different block completion orders")
    return out


def replay(case, R):
    R.inconclusive_because("C12 witnesses name the operation/configuration; re-run the check (VERIF_SEED) to reproduce the schedule-dependent case")
