"""C09 — the SPI calibration window and grouping select exactly the intended samples.

* icontract post-conditions wrapped around hdc.algo.utils.get_calibration_indices / to_linspace and installed in the
  accessor module's namespace, so every spi() call of the workload passes through them;
* accessor oracle: the window is {t : begin <= t <= end} from the definition, the expected cube is the composition
  "per group: ungrouped gammastd_yxt of the sub-series with that window" (C07 certifies the ungrouped kernel);
* relabelling groups / a single group / invalid windows (ValueError and only ValueError).
"""

from __future__ import annotations

import importlib

import numpy as np

from .. import harness as H
import pandas as pd

PID = "C09"
RULE = (
    "case = (time axis, begin, end, group labelling, cube); regular and irregular sorted axes of 10..120 steps, begin/end "
    "on / between / before / after steps (and None), 1..36 groups with int / str / float / shuffled labels, blocked or "
    "interleaved. Non-trivial: window strictly inside the axis or >= 2 groups. distinct = SHA-1 of (axis, begin, end, labels, cube)."
)
ASSUMPTIONS = [
    "the ungrouped kernel gammastd_yxt is the reference for each group's sub-series (its own correctness is C07/C08)",
    "windows are given as ISO strings or Timestamps; axes are sorted and unique",
]
HARD_TIMEOUT_S = {"quick": 900, "thorough": 3600}


class ContractBroken(Exception):
    pass


def install_contracts(R):
    """Wrap the two helpers with icontract post-conditions inside the accessor namespace."""
    import icontract
    import hdc.algo.accessors as acc
    import hdc.algo.utils as U

    def window_is_exact(time, calibration_range, groups, num_groups, result):
        R.count("contract_get_calibration_indices")
        begin, end = (np.datetime64(pd.Timestamp(v)) for v in calibration_range)
        tv = time.values
        if groups is None:
            s, e = int(result[0]), int(result[1])
            if not (0 <= s <= e <= len(tv)):
                return s >= e  # an empty/reversed selection is reported as start >= stop and refused by the caller
            sel = np.zeros(len(tv), dtype=bool)
            sel[s:e] = True
            return bool(np.array_equal(sel, (tv >= begin) & (tv <= end)))
        g = np.asarray(groups)
        res = np.asarray(result)
        ng = num_groups if num_groups is not None else len(np.unique(g))
        if res.shape != (ng, 2):
            return False
        for ix in range(ng):
            sub = tv[g == ix]
            s, e = int(res[ix, 0]), int(res[ix, 1])
            want = (sub >= begin) & (sub <= end)
            if not (0 <= s <= e <= len(sub)):
                if want.any():
                    return False
                continue
            sel = np.zeros(len(sub), dtype=bool)
            sel[s:e] = True
            if not np.array_equal(sel, want):
                return False
        return True

    def linspace_is_dense_relabelling(x, result):
        R.count("contract_to_linspace")
        try:
            idx, keys = result
            keys = np.asarray(keys)
            xa = np.asarray(x)
            idx = np.asarray(idx)
            if idx.dtype.kind not in "iu":
                # codes handed back in a non-integer container (e.g. the fixed-width string dtype of the labels, where
                # '10' is cut to '1'): only acceptable when they convert to integers without loss
                idx = idx.astype(np.int64)
            return bool(
                idx.shape == xa.shape
                and np.array_equal(keys[idx], xa)
                and len(set(keys.tolist())) == len(keys)
                and (idx.size == 0 or set(np.unique(idx).tolist()) == set(range(len(keys))))
            )
        except Exception:
            return False

    gci = icontract.ensure(window_is_exact, error=lambda time, calibration_range, groups, result: ContractBroken(
        f"get_calibration_indices({calibration_range}) -> {np.asarray(result).tolist()} is not the set begin <= t <= end"))(U.get_calibration_indices)
    tls = icontract.ensure(linspace_is_dense_relabelling, error=lambda x, result: ContractBroken(
        f"to_linspace({np.asarray(x).tolist()[:8]}...) -> ids {np.asarray(result[0]).tolist()[:8]}, keys {list(result[1])[:8]} is not a dense order-preserving relabelling"))(U.to_linspace)
    acc.get_calibration_indices = gci
    acc.to_linspace = tls
    return gci, tls


def gen_axis(rng, n):
    kind = rng.integers(0, 6)
    if kind == 4:  # sub-daily steps: a date-only string is an instant (midnight), not the whole day
        return pd.date_range("2000-01-01", periods=n, freq="6h")
    if kind == 5:  # irregular steps off midnight
        gaps = np.cumsum(rng.integers(5, 200, n))
        return pd.DatetimeIndex(np.datetime64("2003-03-01T00:00") + gaps.astype("timedelta64[h]"))
    if kind == 0:
        return pd.date_range("2000-01-01", periods=n, freq="MS")
    if kind == 1:
        return pd.date_range("1995-03-01", periods=n, freq="10D")
    if kind == 2:
        return pd.date_range("2010-06-15", periods=n, freq="D")
    gaps = np.cumsum(rng.integers(1, 40, n))
    return pd.DatetimeIndex(np.datetime64("1990-01-01") + gaps.astype("timedelta64[D]"))


def pick_date(rng, tix, where):
    n = len(tix)
    if where == "on":
        return tix[int(rng.integers(0, n))]
    if where == "between":
        i = int(rng.integers(0, n - 1))
        return tix[i] + (tix[i + 1] - tix[i]) / 2
    if where == "before":
        return tix[0] - pd.Timedelta(days=int(rng.integers(1, 400)))
    if where == "after":
        return tix[-1] + pd.Timedelta(days=int(rng.integers(1, 400)))
    raise ValueError(where)


def gen_labels(rng, n, k, style):
    if style == "interleaved":
        ids = np.arange(n) % k
    elif style == "blocked":
        ids = np.sort(rng.integers(0, k, n))
        ids[:k] = np.arange(k)
        ids = np.sort(ids)
    else:
        ids = rng.integers(0, k, n)
        ids[rng.choice(n, k, replace=False)] = np.arange(k)
    return ids


def spell(rng, ids, how):
    k = int(ids.max()) + 1
    if how == "int":
        names = np.arange(k) + int(rng.integers(0, 50))
    elif how == "str_num":  # '10' < '2' lexicographically
        names = np.array([str(v) for v in rng.permutation(np.arange(1, k + 1) * int(rng.integers(1, 13)))])
    elif how == "float":
        names = rng.permutation(np.arange(k)) * 0.5 + 0.25
    elif how == "char1":  # one-character labels: narrower than the decimal width of the codes once k > 10
        names = np.array(rng.permutation(list("0123456789abcdefghijklmnopqrstuvwxyzABCDEFGHIJKLMNOPQRSTUVWXYZ"))[:k])
    else:
        pool = ["jan", "feb", "mar", "apr", "may", "jun", "jul", "aug", "sep", "oct", "nov", "dec"] + [f"d{j:02d}" for j in range(40)]
        names = np.array(rng.permutation(pool)[:k])
    return [names[i].item() if hasattr(names[i], "item") else names[i] for i in ids]


def grouped_hint(it):
    return it % 3 != 0


def run_case(R, rng, it):
    import xarray as xr
    import hdc.algo  # noqa

    st = importlib.import_module("hdc.algo.ops.stats")
    n = int(rng.choice([10, 12, 24, 36, 60, 120])) if it % 40 != 7 else 1100  # > 1000 steps: numpy abbreviates the repr of such arrays
    tix = gen_axis(rng, n)
    dtype = "int16" if it % 2 == 0 else "float32"
    ny, nx = int(rng.integers(1, 3)), int(rng.integers(1, 3))
    cube = rng.gamma(2.0, 40.0, (ny, nx, n))
    cube[rng.random(cube.shape) < 0.1] = 0
    nodata = -9999.0
    cube[rng.random(cube.shape) < 0.05] = nodata
    cube = np.round(cube).astype(dtype)
    da = xr.DataArray(cube, dims=["y", "x", "time"], coords={"time": tix}, attrs={"nodata": nodata})
    # ---- window
    wb = ["none", "on", "between", "before", "on", "between", "after"][int(rng.integers(0, 7))]
    we = ["none", "on", "between", "after", "on", "between", "before"][int(rng.integers(0, 7))]
    begin = None if wb == "none" else pick_date(rng, tix, wb)
    end = None if we == "none" else pick_date(rng, tix, we)
    if begin is not None and end is not None and begin > end and rng.random() < 0.85:
        begin, end = end, begin  # keep some reversed windows, but mostly valid ones
    if grouped_hint(it) and rng.random() < 0.6:
        # wide windows so that several groups keep >= 2 steps
        begin = None if rng.random() < 0.5 else tix[int(rng.integers(0, max(1, n // 4)))]
        end = None if rng.random() < 0.5 else tix[int(rng.integers(n - max(1, n // 4), n))] + pd.Timedelta(hours=int(rng.integers(0, 30)))
    b_eff = tix[0] if begin is None else begin
    e_eff = tix[-1] if end is None else end
    inwin = (tix >= b_eff) & (tix <= e_eff)
    # ---- groups
    grouped = it % 3 != 0
    k = 1
    labels = None
    ids = np.zeros(n, dtype=int)
    if grouped:
        k = int(rng.choice([1, 2, 3, 4, 6, 12, 36]))
        k = min(k, n // 2)
        ids = gen_labels(rng, n, k, ["interleaved", "blocked", "random"][int(rng.integers(0, 3))])
        labels = spell(rng, ids, ["int", "str_num", "float", "names", "char1"][int(rng.integers(0, 5))])
    kw = {}

    def spell_date(v):
        """How the instant is handed over: full timestamp string, Timestamp, or a coarser string (day / month) whose
        meaning is its first instant, as np.datetime64 reads it."""
        r = rng.random()
        if r < 0.45:
            return str(v), v
        if r < 0.6:
            return v, v
        if r < 0.85:
            d = pd.Timestamp(v).normalize()
            return d.strftime("%Y-%m-%d"), d
        d = pd.Timestamp(v).normalize().replace(day=1)
        return d.strftime("%Y-%m"), d

    if begin is not None:
        kw["calibration_begin"], begin = spell_date(begin)
    if end is not None:
        kw["calibration_end"], end = spell_date(end)
    b_eff = tix[0] if begin is None else begin
    e_eff = tix[-1] if end is None else end
    inwin = (tix >= b_eff) & (tix <= e_eff)
    if isinstance(kw.get("calibration_begin"), str) and len(kw["calibration_begin"]) <= 10 or isinstance(kw.get("calibration_end"), str) and len(kw["calibration_end"]) <= 10:
        R.count("coarse_date_strings")
    if grouped:
        kw["groups"] = labels
    # the output dtype argument must not reach anything but the output (grouped and ungrouped alike)
    odt = [None, None, "float32", "int32", "float64", "int16"][H.pick(it, 5, 6)]
    if odt is not None:
        kw["dtype"] = odt
    check_case(R, rng, tix, cube, dtype, nodata, kw, begin, end, ids if grouped else None)
    # a twin right afterwards: same length, same first and last step, same window arguments and group count, but other
    # dates / another labelling in between - whatever the first call left behind in the process must not serve the second
    if n >= 8 and (H.pick(it, 6, 2) or n > 1000):
        vals = tix.values.astype(np.int64)  # in the axis' own unit (the twin keeps dtype and unit)
        e_ = 3 if n > 12 else 1  # the first / last steps that stay as they are
        lo_, hi_ = vals[e_ - 1] + 1, vals[n - e_]
        inner = np.sort(rng.integers(lo_, hi_, n - 2 * e_)) if hi_ - lo_ > n else vals[e_:n - e_]
        tw = np.concatenate([vals[:e_], inner, vals[n - e_:]])
        if n > 1000:
            R.count("twin_cases_beyond_1000_steps")
        if np.unique(tw).size == n:
            tix2 = pd.DatetimeIndex(tw.astype(tix.values.dtype))
            kw2 = dict(kw)
            ids2 = None
            if grouped:
                k = int(ids.max()) + 1
                ids2 = ids.copy()
                mid = np.arange(3, n - 3)
                if mid.size > 1:
                    ids2[mid] = ids[rng.permutation(mid)]  # same labels at both ends, another assignment in between
                if np.unique(ids2).size == k:
                    kw2["groups"] = [dict(zip(ids.tolist(), labels))[int(g)] for g in ids2]
                else:
                    ids2 = ids
            R.count("twin_cases")
            check_case(R, rng, tix2, cube, dtype, nodata, kw2, begin, end, ids2 if grouped else None)


def _enc(v):
    """JSON form of a window bound / label that keeps its type (replay feeds the very same objects back)."""
    if v is None:
        return None
    if isinstance(v, (pd.Timestamp, np.datetime64)):
        return ["ts", str(pd.Timestamp(v))]
    if isinstance(v, (bool, np.bool_)):
        return ["bool", bool(v)]
    if isinstance(v, (int, np.integer)):
        return ["int", int(v)]
    if isinstance(v, (float, np.floating)):
        return ["float", float(v)]
    return ["str", str(v)]


def _dec(e):
    if e is None:
        return None
    t, v = e
    return {"ts": pd.Timestamp, "bool": bool, "int": int, "float": float, "str": str}[t](v)


def check_case(R, rng, tix, cube, dtype, nodata, kw, begin, end, ids):
    """``begin`` / ``end``: the instants the window bounds denote (None = open); ``ids``: dense group ids or None."""
    import xarray as xr
    import hdc.algo  # noqa

    st = importlib.import_module("hdc.algo.ops.stats")
    n = len(tix)
    grouped = ids is not None
    labels = kw.get("groups")
    if ids is None:
        ids = np.zeros(n, dtype=int)
    ids = np.asarray(ids)
    k = int(ids.max()) + 1
    da = xr.DataArray(cube, dims=["y", "x", "time"], coords={"time": tix}, attrs={"nodata": nodata})
    b_eff = tix[0] if begin is None else begin
    e_eff = tix[-1] if end is None else end
    inwin = (tix >= b_eff) & (tix <= e_eff)
    case = {"time": tix.values, "begin": None if begin is None else str(begin), "end": None if end is None else str(end),
            "labels": None if labels is None else [str(v) for v in labels], "cube": cube, "dtype": dtype, "nodata": nodata,
            "kw_begin": _enc(kw.get("calibration_begin")), "kw_end": _enc(kw.get("calibration_end")),
            "kw_groups": None if labels is None else [_enc(v) for v in labels], "ids": ids if grouped else None, "kw_dtype": kw.get("dtype")}
    strictly_inside = bool(inwin.sum() < n)
    R.evaluation()
    R.case(strictly_inside or k >= 2, tix.values, case["begin"], case["end"], case["labels"], cube)
    # ---- does the definition allow the call?
    per_group = [int((inwin & (ids == g)).sum()) for g in range(k)]
    must_raise = any(c < 2 for c in per_group)
    try:
        res = da.hdc.algo.spi(**kw)
        raised = None
    except ValueError as e:
        raised = e
    except ContractBroken as e:
        R.violation("C09:helper-contract", str(e)[:300], case)
        return
    except Exception as e:
        R.violation("C09:wrong-exception", f"spi({ {k_: str(v)[:25] for k_, v in kw.items() if k_ != 'groups'} }) raises {type(e).__name__}: {str(e)[:150]} (only ValueError is allowed)", case)
        return
    if must_raise:
        R.count("invalid_windows")
        if raised is None:
            R.violation("C09:invalid-window-accepted", f"window selects {per_group} steps per group (< 2 somewhere) but spi() returned a result", case)
        return
    if raised is not None:
        R.violation("C09:valid-window-refused", f"window selects {per_group} steps per group (all >= 2) but spi() raised ValueError: {str(raised)[:120]}", case)
        return
    R.count("valid_windows")
    R.count("grouped_calls" if grouped else "ungrouped_calls")
    if k >= 2:
        R.count("multi_group_calls")
    # ---- attributes: first / last step inside the window
    exp_b, exp_e = str(tix[inwin][0]), str(tix[inwin][-1])
    if res.attrs.get("spi_calibration_begin") != exp_b or res.attrs.get("spi_calibration_end") != exp_e:
        R.violation("C09:attrs", f"calibration attrs ({res.attrs.get('spi_calibration_begin')}, {res.attrs.get('spi_calibration_end')}) != first/last step in the window ({exp_b}, {exp_e})", case)
        return
    # ---- composition: per group, the ungrouped SPI of the sub-series with the definition's window
    out = res.transpose("y", "x", "time").values
    expect = np.full(cube.shape, nodata, dtype=np.int16)
    for g in range(k):
        sel = ids == g
        sub = np.ascontiguousarray(cube[:, :, sel])
        w = np.flatnonzero(inwin[sel])
        s, e = int(w[0]), int(w[-1]) + 1
        if not np.array_equal(np.arange(s, e), w):
            raise AssertionError("window not contiguous on a sorted axis")
        expect[:, :, sel] = st.gammastd_yxt(sub, nodata, s, e)
    R.count("cubes_compared")
    want_dt = np.dtype(kw.get("dtype", "int16"))
    R.count(f"output_dtype_{want_dt.name}")
    if res.dtype != want_dt or not np.array_equal(out, expect.astype(want_dt)):
        bad = np.argwhere(out != expect)
        R.violation("C09:window-or-grouping", f"spi(groups={'yes' if grouped else 'no'}, k={k}) differs from the per-group ungrouped SPI with window {exp_b}..{exp_e} at {len(bad)} cells (first {bad[0].tolist() if len(bad) else None}: {out[tuple(bad[0])] if len(bad) else ''} vs {expect[tuple(bad[0])] if len(bad) else ''})", case)
        return
    # ---- relabelling invariance and single group == ungrouped
    if grouped:
        perm = rng.permutation(k)
        relabel = [f"g{perm[i]:03d}" if rng.random() < 2 else i for i in ids]
        res2 = da.hdc.algo.spi(**dict(kw, groups=relabel))
        R.count("relabel_pairs")
        if not np.array_equal(res2.transpose("y", "x", "time").values, out):
            R.violation("C09:label-dependence", f"result changes when the {k} groups are renamed (same partition)", dict(case, relabel=relabel))
            return
        if k == 1:
            kw1 = {a: b for a, b in kw.items() if a != "groups"}
            res3 = da.hdc.algo.spi(**kw1)
            R.count("single_group_vs_ungrouped")
            if not np.array_equal(res3.transpose("y", "x", "time").values, out):
                R.violation("C09:single-group", "single group differs from the ungrouped result", case)
                return
    if R.want_sample() and (strictly_inside or k >= 2):
        R.sample({"axis": [str(tix[0]), str(tix[-1]), n], "begin": case["begin"], "end": case["end"], "groups": None if labels is None else [str(v) for v in labels[:8]],
                  "attrs": [exp_b, exp_e], "steps_in_window_per_group": per_group[:8]})


def helper_direct(R, rng):
    """The helpers called directly (through the contracts) on hostile inputs."""
    import hdc.algo.accessors as acc

    n = int(rng.choice([1, 2, 5, 30, 365]))
    tix = gen_axis(rng, max(n, 2))[:n] if n > 1 else pd.date_range("2001-01-01", periods=1)
    for _ in range(4):
        b = pick_date(rng, tix, ["on", "before", "after", "between"][int(rng.integers(0, 4 if n > 1 else 3))])
        e = pick_date(rng, tix, ["on", "before", "after", "between"][int(rng.integers(0, 4 if n > 1 else 3))])
        try:
            acc.get_calibration_indices(tix, (b, e))
            k = int(rng.integers(1, max(2, min(6, n))))
            ids = (np.arange(n) % k).astype("int16")
            acc.get_calibration_indices(tix, (b, e), ids, k)
            R.count("helper_direct_calls", 2)
        except ContractBroken as ex:
            R.violation("C09:helper-contract", str(ex)[:300], {"time": tix.values, "begin": str(b), "end": str(e)})
    for labels in (rng.integers(-5, 5, 12), np.array(["10", "2", "1", "10", "b", "a"]), np.array(list("abcdefghijklm")), np.array(list("zyxwvutsrqponmlkjihgfedcba")[: int(rng.integers(11, 27))]), rng.permutation(np.arange(7) * 0.5), np.array([["x", "y"], ["y", "z"]])):
        try:
            acc.to_linspace(np.asarray(labels))
            R.count("helper_direct_calls")
        except ContractBroken as ex:
            R.violation("C09:helper-contract", str(ex)[:300], {"labels": [str(v) for v in np.asarray(labels).ravel()]})


def plan(tier, seed):
    q = tier == "quick"
    return [{"kind": "spi", "sub": i, "cases": 90 if q else 2500, "budget_s": 100 if q else 600} for i in range(16 if q else 32)]


def run_shard(spec, R):
    rng = np.random.default_rng([spec["seed"], 9, spec["sub"]])
    install_contracts(R)
    for it in range(spec["cases"]):
        if R.out_of_time():
            R.count("stopped_on_budget")
            break
        run_case(R, rng, it)
        if it % 10 == 0:
            helper_direct(R, rng)


def finalize(agg, tier):
    c = agg["counters"]
    out = []
    for k in ("contract_get_calibration_indices", "contract_to_linspace", "valid_windows", "invalid_windows", "multi_group_calls", "relabel_pairs",
              "single_group_vs_ungrouped", "cubes_compared", "ungrouped_calls", "helper_direct_calls", "twin_cases"):
        if c.get(k, 0) == 0:
            out.append(f"monitor/class {k} never observed")
    return out


def replay(case, R):
    if "kw_begin" not in case and "kw_groups" not in case:
        if "labels" in case and "time" not in case:  # witness of a direct helper call
            install_contracts(R)
            import hdc.algo.accessors as acc
            try:
                acc.to_linspace(np.asarray(case["labels"]))
            except ContractBroken as ex:
                R.violation("C09:helper-contract", str(ex)[:300], case)
            R.evaluation()
            return
        R.inconclusive_because("witness recorded before the replayable format: re-run the shard with the same VERIF_SEED")
        return
    install_contracts(R)
    tix = pd.DatetimeIndex(np.asarray(case["time"]).astype("datetime64[ns]"))
    cube = np.asarray(case["cube"]).astype(case["dtype"])
    kw = {}
    if case.get("kw_begin") is not None:
        kw["calibration_begin"] = _dec(case["kw_begin"])
    if case.get("kw_end") is not None:
        kw["calibration_end"] = _dec(case["kw_end"])
    if case.get("kw_groups") is not None:
        kw["groups"] = [_dec(v) for v in case["kw_groups"]]
    if case.get("kw_dtype") is not None:
        kw["dtype"] = case["kw_dtype"]
    begin = None if case.get("begin") is None else pd.Timestamp(case["begin"])
    end = None if case.get("end") is None else pd.Timestamp(case["end"])
    ids = None if case.get("ids") is None else np.asarray(case["ids"]).astype(int)
    check_case(R, np.random.default_rng(0), tix, cube, case["dtype"], float(case.get("nodata", -9999.0)), kw, begin, end, ids)
