"""C10 — Mann-Kendall trend follows its definition and symmetries.

Reference model from the definition (exact integers for S and the tie-corrected variance); boundary monitors on
mann_kendall_trend_1d, mann_kendall_trend_yxt, _mann_kendall_trend_gu(_nd) and DataArray.hdc.algo.mktrend;
exhaustive over all weak orderings (tie patterns) of length 2..7; metamorphic pairs on random series.
"""

from __future__ import annotations

import importlib
import itertools
import math
import statistics
from fractions import Fraction

import numpy as np

from .. import harness as H
from scipy.stats import norm

PID = "C10"
RULE = (
    "case = one series (int16 or float32). Exhaustive part: every weak ordering (rank pattern with ties) of length 2..7 "
    "(3+13+75+541+4683+47293 patterns) mapped to values; random part: length 3..200 with ties; metamorphic pairs under "
    "strictly increasing maps, negation and time reversal. Non-trivial: n >= 3. distinct = SHA-1 of (dtype, series)."
)
ASSUMPTIONS = [
    "tau and p are compared at float32 resolution (2 ulp of the stored value; p additionally 5e-16 absolute for the float64 evaluation of 1 - Phi); slope to 2 ulp32 (int16 input) or 4*eps32*max|x| (float32 input: differences are taken in single precision)",
    "the flag may take either value iff |p - 0.05| < 1e-7",
    "series with some (not all) nodata cells are outside the property (it speaks of series without missing values)",
]
HARD_TIMEOUT_S = {"quick": 900, "thorough": 3600}
EXHAUSTIVE = {"quick": "all weak orderings of length 2..6 (5315 patterns) x {int16, float32}; length 7 sampled",
              "thorough": "all weak orderings of length 2..7 (52608 patterns) x {int16, float32}"}

_S = {}


def stats_mod():
    if "m" not in _S:
        _S["m"] = importlib.import_module("hdc.algo.ops.stats")
    return _S["m"]


def oracle(x):
    """(tau, p, slope, flag, ambiguous_flag) from the definition; x is a sequence of exact numbers."""
    xs = [Fraction(float(v)) if not isinstance(v, (int, Fraction)) else Fraction(v) for v in x]
    n = len(xs)
    S = 0
    slopes = []
    for i in range(n - 1):
        for j in range(i + 1, n):
            d = xs[j] - xs[i]
            S += (d > 0) - (d < 0)
            slopes.append(d / (j - i))
    tau = Fraction(S, n * (n - 1) // 2)
    counts = {}
    for v in xs:
        counts[v] = counts.get(v, 0) + 1
    var = Fraction(n * (n - 1) * (2 * n + 5) - sum(t * (t - 1) * (2 * t + 5) for t in counts.values()), 18)
    if S > 0:
        z = (S - 1) / math.sqrt(var)
    elif S < 0:
        z = (S + 1) / math.sqrt(var)
    else:
        z = 0.0
    p = 2 * float(norm.sf(abs(z)))
    slopes.sort()
    m = len(slopes)
    slope = slopes[m // 2] if m % 2 else (slopes[m // 2 - 1] + slopes[m // 2]) / 2
    flag = 0
    if p < 0.05:
        flag = 1 if z > 0 else (-1 if z < 0 else 0)
    return float(tau), p, float(slope), flag, abs(p - 0.05) < 1e-7, z


def ulp32(v):
    return float(np.spacing(np.float32(abs(v)))) if v == v else 0.0


def compare(R, where, got, x, dtype, case):
    """got = (tau, p, slope, trend) as produced by the code (float32 / int8 scalars)."""
    tau, p, slope, trend = (float(got[0]), float(got[1]), float(got[2]), int(got[3]))
    et, ep, es, ef, amb, z = oracle(x)
    R.count("series_compared")
    if not (abs(tau - et) <= 2 * ulp32(et) + 1e-45):  # NaN-safe
        R.violation("C10:tau", f"{where}: tau {tau!r} != S/(n(n-1)/2) = {et!r}", case)
        return False
    if not (abs(p - ep) <= 2 * ulp32(ep) + 5e-16):  # 2(1 - Phi(|z|)) evaluated in float64 has ~2e-16 absolute error
        R.violation("C10:pvalue", f"{where}: p {p!r} != two-sided normal p of the continuity- and tie-corrected Z = {ep!r} (Z={z:.6f})", case)
        return False
    tol = 2 * ulp32(es) + (4 * 2.0 ** -23 * float(np.max(np.abs(np.asarray(x, dtype=float)))) if dtype == "float32" else 0.0) + 1e-45
    if not (abs(slope - es) <= tol):
        R.violation("C10:slope", f"{where}: Sen slope {slope!r} != median of pairwise slopes {es!r}", case)
        return False
    if trend != ef and not amb:
        R.violation("C10:flag", f"{where}: trend flag {trend} != sign(Z)*[p<0.05] = {ef} (p={ep:.6g}, Z={z:.4f})", case)
        return False
    if amb:
        R.count("flag_ambiguous_p_at_threshold")
    return True


def weak_orderings(n):
    """All rank patterns with ties of length n (ranks dense 0..k-1, every rank used)."""
    out = []
    # enumerate all sequences over 0..n-1 whose set of values is an initial segment
    for seq in itertools.product(range(n), repeat=n):
        k = max(seq)
        if len(set(seq)) == k + 1:
            out.append(seq)
    return out


def shard_exhaustive(spec, R):
    s = stats_mod()
    n = spec["n"]
    pats = weak_orderings(n)
    if spec.get("sample"):
        rng = np.random.default_rng([spec["seed"], 10, 99, n])
        pats = [pats[i] for i in sorted(rng.choice(len(pats), spec["sample"], replace=False))]
    pats = pats[spec["chunk"]::spec["nchunks"]]
    ranks = np.array(pats, dtype=np.int64)
    for dtype in ("int16", "float32"):
        # strictly increasing maps from ranks to values
        maps = [lambda r: r * 3 - 4, lambda r: (2 ** r) * 100 - 5000] if dtype == "int16" else [lambda r: r * 0.25 - 0.5, lambda r: np.exp(r) * 1.5]
        for mi, f in enumerate(maps):
            vals = f(ranks).astype(dtype)
            tau, p, slope, trend = s._mann_kendall_trend_gu(vals)
            tau2, p2, slope2, trend2 = s._mann_kendall_trend_gu_nd(vals, -9999.0)
            cube = s.mann_kendall_trend_yxt(vals.reshape(1, -1, n))
            for k in range(len(pats)):
                x = vals[k]
                case = {"x": x, "dtype": dtype}
                R.evaluation()
                ok = compare(R, "_mann_kendall_trend_gu", (tau[k], p[k], slope[k], trend[k]), x, dtype, case)
                if ok:
                    same = (tau2[k] == tau[k] and p2[k] == p[k] and slope2[k] == slope[k] and trend2[k] == trend[k]
                            and tuple(cube[0, k, :3]) == (tau[k], p[k], slope[k]) and int(cube[0, k, 3]) == int(trend[k]))
                    if not same:
                        R.violation("C10:wrappers-disagree", f"gufunc / nodata-gufunc / yxt wrappers disagree on the same series: {(tau[k], p[k], slope[k], trend[k])} vs {(tau2[k], p2[k], slope2[k], trend2[k])} vs {cube[0, k].tolist()}", case)
                    if mi == 0 and k % 7 == 0:
                        one = s.mann_kendall_trend_1d(x)
                        R.count("njit_1d_calls")
                        compare(R, "mann_kendall_trend_1d", one, x, dtype, case)
            R.count(f"patterns_n{n}_{dtype}", len(pats))
    R.enumerated(len(pats) * (1 if n >= 3 else 0))
    R.count("patterns", len(pats))
    if pats:
        R.sample({"pattern": list(pats[len(pats) // 2]), "n": n, "oracle": oracle(list(pats[len(pats) // 2]))[:4]})


def shard_random(spec, R):
    s = stats_mod()
    rng = np.random.default_rng([spec["seed"], 10, 1, spec["sub"]])
    for it in range(spec["cases"]):
        if R.out_of_time():
            break
        dtype = "int16" if it % 2 == 0 else "float32"
        n = int(rng.choice([3, 4, 5, 8, 10, 20, 36, 72, 200]))
        tie = rng.random()
        if dtype == "int16":
            hi = int(rng.choice([3, 10, 100, 5000, 16000]))  # 16000: differences beyond the int16 range
            x = rng.integers(-hi, hi + 1, n)
            if tie < 0.3:
                x = x + (np.arange(n) * rng.integers(-hi // 3 - 1, hi // 3 + 2))
            x = np.clip(x, -10000 if hi < 16000 else -32000, 10000 if hi < 16000 else 32000).astype(np.int16)
        else:
            x = rng.normal(0, 1, n) * float(10.0 ** int(rng.integers(-3, 4)))
            if tie < 0.5:
                x = np.round(x, int(rng.integers(0, 2)))
            x = (x + np.arange(n) * rng.normal(0, 0.3) * np.std(x)).astype(np.float32)
        case = {"x": x, "dtype": dtype}
        R.evaluation()
        R.case(n >= 3, dtype, x)
        got = s._mann_kendall_trend_gu(x)
        if not compare(R, "_mann_kendall_trend_gu", got, x, dtype, case):
            continue
        # ---- metamorphic pairs
        tau, p, slope, trend = (float(got[0]), float(got[1]), float(got[2]), int(got[3]))
        amb = abs(p - 0.05) < 1e-6

        def run(y):
            r = s._mann_kendall_trend_gu(np.ascontiguousarray(y.astype(dtype)))
            return float(r[0]), float(r[1]), float(r[2]), int(r[3])

        a = int(rng.integers(1, 4))
        b = int(rng.integers(-50, 51))
        if dtype == "int16":
            a = a if np.max(np.abs(x.astype(np.int64))) * a + abs(b) < 32000 else 1
        else:
            a, b = int(2 ** int(rng.integers(0, 4))), 0  # exactly representable in float32: the map must not round the data
        t2, p2, s2, f2 = run(x.astype(np.float64) * a + b)
        R.count("pairs_affine")
        if (t2, p2) != (tau, p) or (f2 != trend and not amb) or not (abs(s2 - a * slope) <= 4 * ulp32(a * slope) + (8 * 2.0 ** -23 * float(np.max(np.abs(x.astype(float)))) * a if dtype == "float32" else 0)):
            R.violation("C10:affine", f"positive affine map a={a}, b={b}: (tau,p,slope,flag) {(tau, p, slope, trend)} -> {(t2, p2, s2, f2)}", case)
            continue
        # monotone non-linear map on ranks: keeps tau, p, flag
        ranks = np.unique(x, return_inverse=True)[1]
        if dtype == "int16":
            mono = ranks.astype(np.int64) ** 2 + ranks if ranks.max() < 170 else ranks
        else:
            mono = np.exp(ranks / max(1, ranks.max()) * 5.0)
        t3, p3, s3, f3 = run(np.asarray(mono, dtype=np.float64))
        R.count("pairs_monotone")
        if (t3, p3) != (tau, p) or (f3 != trend and not amb):
            R.violation("C10:monotone", f"strictly increasing map of the values changes (tau,p,flag): {(tau, p, trend)} -> {(t3, p3, f3)}", case)
            continue
        t4, p4, s4, f4 = run(-x.astype(np.float64))
        t5, p5, s5, f5 = run(x[::-1].astype(np.float64))
        R.count("pairs_negation_reversal", 2)
        for name, (tt, pp, ss, ff) in (("negation", (t4, p4, s4, f4)), ("time reversal", (t5, p5, s5, f5))):
            if tt != -tau or pp != p or (ff != -trend and not amb) or not (abs(ss + slope) <= 4 * ulp32(slope) + (8 * 2.0 ** -23 * float(np.max(np.abs(x.astype(float)))) if dtype == "float32" else 0)):
                R.violation("C10:antisymmetry", f"{name}: (tau,p,slope,flag) {(tau, p, slope, trend)} -> {(tt, pp, ss, ff)} (expected sign flip of tau, slope, flag; same p)", case)
                break
        if R.want_sample() and n <= 10:
            R.sample({"dtype": dtype, "x": x, "tau": tau, "p": p, "slope": slope, "trend": trend})


def shard_accessor(spec, R):
    import pandas as pd
    import xarray as xr
    import hdc.algo  # noqa
    import warnings

    s = stats_mod()
    rng = np.random.default_rng([spec["seed"], 10, 2, spec["sub"]])
    for it in range(spec["cases"]):
        if R.out_of_time():
            break
        dtype = "int16" if it % 2 == 0 else "float32"
        ny, nx, nt = int(rng.integers(1, 4)), int(rng.integers(1, 4)), int(rng.choice([3, 6, 12, 30]))
        # the placeholder may be a value the statistics themselves can take (tau in [-1, 1], p in [0, 1], flag 0 / +-1)
        nodata = [-9999, -1, 0, 1, -32768, 32767][H.pick(it, 1, 6)]
        cube = (rng.integers(-300, 300, (ny, nx, nt)) + np.arange(nt) * rng.integers(-20, 21, (ny, nx, 1))).astype(dtype)
        cube[cube == nodata] += 2
        # pixels whose statistics hit those values exactly: strictly monotone (tau = +-1) and palindromic (S = 0, tau = 0)
        hostile = [(10 + 3 * np.arange(nt)), (900 - 7 * np.arange(nt)), np.minimum(np.arange(nt), np.arange(nt)[::-1]) * 5 + 20]
        cube[0, 0] = hostile[H.pick(it, 2, 3)].astype(dtype)
        if nx > 1:
            cube[0, 1] = hostile[(H.pick(it, 2, 3) + 1) % 3].astype(dtype)
        R.count(f"accessor_nodata_{nodata}")
        alln = rng.random((ny, nx)) < 0.25
        with_attr = bool(H.pick(it, 3, 3))
        if with_attr:
            cube[alln] = nodata
        da = xr.DataArray(cube, dims=["y", "x", "time"], coords={"time": pd.date_range("2001-01-01", periods=nt, freq="YS")}, attrs={"nodata": nodata} if with_attr else {})
        order = [("y", "x", "time"), ("time", "y", "x"), ("y", "time", "x")][H.pick(it, 4, 3)]
        with warnings.catch_warnings():
            warnings.simplefilter("ignore")
            ds = da.transpose(*order).hdc.algo.mktrend()
        R.evaluation()
        R.case(True, "acc", cube, with_attr)
        case = {"cube": cube, "with_nodata_attr": with_attr, "order": list(order), "dtype": dtype}
        if set(ds.data_vars) != {"tau", "pvalue", "slope", "trend"} or ds.trend.dtype != np.int8 or ds.tau.dtype != np.float32 or ds.trend.attrs.get("nodata") != -2:
            R.violation("C10:accessor-dataset", f"mktrend returned {list(ds.data_vars)} / dtypes {ds.tau.dtype},{ds.trend.dtype} / trend nodata {ds.trend.attrs.get('nodata')}", case)
            continue
        for a in range(ny):
            for b in range(nx):
                got = (ds.tau.values[a, b], ds.pvalue.values[a, b], ds.slope.values[a, b], ds.trend.values[a, b])
                R.count("accessor_pixels")
                if with_attr and alln[a, b]:
                    R.count("all_nodata_pixels")
                    if not (got[0] == nodata and got[1] == nodata and got[2] == nodata and int(got[3]) == -2):
                        R.violation("C10:all-nodata", f"entirely-nodata pixel yields {tuple(float(g) for g in got)}, expected nodata x3 and flag -2", case)
                else:
                    compare(R, "mktrend accessor", got, cube[a, b], dtype, dict(case, pixel=[a, b]))


def plan(tier, seed):
    q = tier == "quick"
    specs = []
    for n in (2, 3, 4, 5):
        specs.append({"kind": "exhaustive", "n": n, "chunk": 0, "nchunks": 1})
    for c in range(3):
        specs.append({"kind": "exhaustive", "n": 6, "chunk": c, "nchunks": 3})
    if q:
        for c in range(3):
            specs.append({"kind": "exhaustive", "n": 7, "chunk": c, "nchunks": 3, "sample": 3000})
    else:
        for c in range(12):
            specs.append({"kind": "exhaustive", "n": 7, "chunk": c, "nchunks": 12})
    for i in range(4 if q else 16):
        specs.append({"kind": "random", "sub": i, "cases": 250 if q else 12000, "budget_s": 100 if q else 600})
    for i in range(2 if q else 8):
        specs.append({"kind": "accessor", "sub": i, "cases": 40 if q else 1000, "budget_s": 100 if q else 600})
    return specs


def run_shard(spec, R):
    {"exhaustive": shard_exhaustive, "random": shard_random, "accessor": shard_accessor}[spec["kind"]](spec, R)


def finalize(agg, tier):
    c = agg["counters"]
    out = []
    need = 3 + 13 + 75 + 541 + 4683
    if c.get("patterns", 0) < need:
        out.append(f"only {c.get('patterns', 0)} rank patterns enumerated (need >= {need})")
    for k in ("series_compared", "pairs_affine", "pairs_monotone", "pairs_negation_reversal", "accessor_pixels", "all_nodata_pixels", "njit_1d_calls"):
        if c.get(k, 0) == 0:
            out.append(f"monitor {k} never evaluated")
    return out


def replay(case, R):
    s = stats_mod()
    if "cube" in case:
        R.inconclusive_because("accessor witness: re-run the accessor shard")
        return
    x = np.asarray(case["x"]).astype(case["dtype"])
    R.evaluation()
    compare(R, "_mann_kendall_trend_gu", s._mann_kendall_trend_gu(x), x, case["dtype"], case)
