"""C18 — run-length statistics equal the longest / current run of ones.

Reference model: itertools.groupby run lengths.  Exhaustive over all binary series of length 1..16 through the real
gufunc; structured long series (runs beyond 255); croo under every / random permutations of the stored time order.
"""

from __future__ import annotations

import itertools

import numpy as np

PID = "C18"
RULE = (
    "case = one binary series (lroo) or (series, stored time order) (croo); all 2^1+...+2^16 = 131070 series exhaustively; "
    "structured/random series up to length 1000 with runs of 254..600 at the start, middle and end; croo: all permutations "
    "for length <= 6, 50 random ones otherwise. Non-trivial: the series contains a run >= 2. Exhaustive cases are distinct by construction."
)
ASSUMPTIONS = ["series are binary (0/1) uint8, as the accessor's own tests use them"]
HARD_TIMEOUT_S = {"quick": 600, "thorough": 1800}
EXHAUSTIVE = {"quick": "all binary series of length 1..16 (131070) through the lroo gufunc",
              "thorough": "all binary series of length 1..16 (131070) through the lroo gufunc; croo: all permutations of all series of length <= 6"}


def o_lroo(row):
    best = 0
    for k, g in itertools.groupby(row):
        if k == 1:
            best = max(best, sum(1 for _ in g))
    return best if best >= 2 else 0


def o_lroo_vec(a):
    """Vectorised longest run of ones per row (reference: running counter)."""
    a = np.asarray(a)
    cur = np.zeros(a.shape[0], dtype=np.int64)
    best = np.zeros(a.shape[0], dtype=np.int64)
    for j in range(a.shape[1]):
        cur = np.where(a[:, j] == 1, cur + 1, 0)
        best = np.maximum(best, cur)
    return np.where(best >= 2, best, 0)


def o_croo(values_in_time_order):
    n = 0
    for v in reversed(list(values_in_time_order)):
        if v == 1:
            n += 1
        else:
            break
    return n


def lroo_k():
    import hdc.algo.ops as ops

    return ops.lroo


def shard_exhaustive(spec, R):
    lroo = lroo_k()
    for L in spec["lengths"]:
        a = ((np.arange(2 ** L)[:, None] >> np.arange(L)[None, :]) & 1).astype(np.uint8)
        got = lroo(a)
        exp = o_lroo_vec(a)
        R.evaluation(a.shape[0])
        R.enumerated(int(np.sum(exp >= 2)))
        R.count("exhaustive_series", a.shape[0])
        # spot-check the vectorised reference against the groupby definition
        for i in np.linspace(0, a.shape[0] - 1, 64).astype(int):
            if o_lroo(a[i].tolist()) != exp[i]:
                raise AssertionError("reference models disagree")
        bad = np.flatnonzero(got.astype(np.int64) != exp)
        if bad.size:
            i = int(bad[0])
            R.violation("C18:lroo", f"lroo({a[i].tolist()}) = {int(got[i])}, longest run of ones (>= 2) is {int(exp[i])}", {"series": a[i]})
        # the same series where the time axis is not the unit-stride axis of the memory handed over
        wide = np.full((a.shape[0], 2 * L + 1), 1, dtype=np.uint8)
        wide[:, 1::2] = a
        for lab, view in (("Fortran order", np.asfortranarray(a)), ("a transposed time-first array", np.ascontiguousarray(a.T).T), ("every second cell of a wider buffer", wide[:, 1::2]),
                          ("a reversed view", np.ascontiguousarray(a[:, ::-1])[:, ::-1])):
            g2 = lroo(view)
            R.count("lroo_layout_calls")
            bad = np.flatnonzero(np.asarray(g2).astype(np.int64) != exp)
            if bad.size:
                i = int(bad[0])
                R.violation("C18:lroo-layout", f"lroo of {a[i].tolist()} handed over as {lab} = {int(g2[i])}, longest run of ones (>= 2) is {int(exp[i])}", {"series": a[i], "layout": lab})
                break
        if L == 8:
            R.sample({"series": a[173], "lroo": int(got[173]), "oracle": int(exp[173])})


def structured(rng, n_max):
    out = []
    for run in (254, 255, 256, 257, 300, 511, 512, 600):
        if run > n_max:
            continue
        for pos in ("start", "middle", "end", "all"):
            n = run if pos == "all" else int(rng.integers(run + 2, min(n_max, run + 400) + 1))
            s = (rng.random(n) < 0.3).astype(np.uint8)
            # break accidental long runs in the background
            s[::3] = 0
            a = {"start": 0, "middle": (n - run) // 2, "end": n - run, "all": 0}[pos]
            s[a:a + run] = 1
            if a > 0:
                s[a - 1] = 0
            if a + run < n:
                s[a + run] = 0
            out.append(s)
    for n in (2, 3, 17, 100, 999, 1000):
        out.append(np.ones(n, dtype=np.uint8))
        out.append((np.arange(n) % 2).astype(np.uint8))
        out.append(np.zeros(n, dtype=np.uint8))
    return out


def shard_long(spec, R):
    import pandas as pd
    import xarray as xr
    import hdc.algo  # noqa

    lroo = lroo_k()
    rng = np.random.default_rng([spec["seed"], 18, 1, spec["sub"]])
    series = structured(rng, 1000)
    for _ in range(spec["random"]):
        n = int(rng.integers(1, 1001))
        p = rng.uniform(0.05, 0.99)
        series.append((rng.random(n) < p).astype(np.uint8))
    for s in series:
        got = int(lroo(s))
        exp = o_lroo(s.tolist())
        R.evaluation()
        R.case(exp >= 2, "lroo", s)
        R.count("long_series")
        if exp > 255:
            R.count("runs_beyond_255")
        if got != exp:
            R.violation("C18:lroo-long", f"lroo of a length-{s.size} series with longest run {exp} returns {got}", {"series": s})
    # accessor on cubes holding long runs, any dim order
    for it in range(spec["cubes"]):
        nt = int(rng.choice([5, 40, 300, 700]))
        ny, nx = int(rng.integers(1, 4)), int(rng.integers(1, 4))
        cube = (rng.random((ny, nx, nt)) < rng.uniform(0.3, 0.995)).astype(np.uint8)
        if nt >= 300:
            a0 = int(rng.integers(0, nt - 280))
            cube[0, 0, a0:a0 + int(rng.integers(256, 280))] = 1
        da = xr.DataArray(cube, dims=["y", "x", "time"], coords={"time": pd.date_range("2000-01-01", periods=nt, freq="D")})
        order = [("y", "x", "time"), ("time", "y", "x"), ("y", "time", "x")][it % 3]
        res = da.transpose(*order).hdc.algo.lroo()
        exp = np.array([[o_lroo(cube[a, b].tolist()) for b in range(nx)] for a in range(ny)])
        R.evaluation()
        R.case(True, "lroo-acc", cube)
        R.count("accessor_lroo_pixels", ny * nx)
        if int(exp.max()) > 255:
            R.count("accessor_runs_beyond_255")
        if res.dims != ("y", "x") or not np.array_equal(res.values.astype(np.int64), exp):
            R.violation("C18:lroo-long" if int(exp.max()) > 255 else "C18:lroo-accessor", f"DataArray.hdc.algo.lroo() = {res.values.tolist()} (dims {res.dims}, dtype {res.dtype}), reference {exp.tolist()}", {"cube": cube, "order": list(order)})


def shard_croo(spec, R):
    import pandas as pd
    import xarray as xr
    import hdc.algo  # noqa

    rng = np.random.default_rng([spec["seed"], 18, 2, spec["sub"]])
    lroo = lroo_k()
    cases = []
    if spec.get("exhaustive_upto"):
        for L in range(1, spec["exhaustive_upto"] + 1):
            for bits in itertools.product((0, 1), repeat=L):
                cases.append((np.array(bits, dtype=np.uint8), "all"))
    for _ in range(spec["random"]):
        n = int(rng.choice([1, 2, 3, 5, 8, 13, 40, 300]))
        s = (rng.random(n) < rng.uniform(0.3, 0.98)).astype(np.uint8)
        if rng.random() < 0.5:
            k = int(rng.integers(0, n + 1))
            s[n - k:] = 1  # a trailing run
        cases.append((s, "random"))
    # trailing runs beyond what a narrow input dtype can count (lroo demands uint8, so the same array reaches croo)
    for k in (255, 256, 257, 300, int(rng.integers(258, 700))):
        n = k + int(rng.integers(0, 40))
        s = (rng.random(n) < 0.6).astype(np.uint8)
        s[n - k:] = 1
        if n > k:
            s[n - k - 1] = 0
        cases.append((s, "long"))
    DTYPES = [np.int64, np.uint8, np.int8, np.int16, np.int32, np.float32]
    for ci, (s, mode) in enumerate(cases):
        dt = DTYPES[ci % len(DTYPES)]
        R.count(f"croo_input_{np.dtype(dt).name}")
        n = s.size
        time = pd.date_range("2000-01-01", periods=n, freq="10D")
        exp = o_croo(s.tolist())
        lr = o_lroo(s.tolist())
        if mode == "all" and n <= 6:
            perms = list(itertools.permutations(range(n)))
            if len(perms) > spec.get("max_perms", 720):
                perms = [perms[i] for i in rng.choice(len(perms), spec["max_perms"], replace=False)]
        else:
            perms = [tuple(rng.permutation(n)) for _ in range(spec["perms"])] + [tuple(range(n)), tuple(range(n - 1, -1, -1))]
        # several stored orders at once: one pixel per permutation would need different time coords; run one by one
        for perm in perms:
            perm = np.asarray(perm, dtype=int)
            da = xr.DataArray(s[perm].reshape(n, 1, 1).astype(dt), dims=["time", "y", "x"], coords={"time": time[perm]})
            got = int(da.hdc.algo.croo().values[0, 0])
            if exp > 255:
                R.count("croo_runs_beyond_255")
            R.evaluation()
            R.count("croo_orders")
            if got != exp:
                R.violation("C18:croo", f"croo = {got} for values {s.tolist()[:20]} stored in time order {perm.tolist()[:20]}; run of ones ending at the latest step is {exp}", {"series": s, "perm": perm})
                break
            if got > max(lr, 1):
                R.violation("C18:croo-vs-lroo", f"croo {got} > max(lroo {lr}, 1)", {"series": s, "perm": perm})
                break
        R.case(exp >= 2 or lr >= 2, "croo", s)
        if mode == "all":
            R.count("croo_series_exhaustive")
        if int(lroo(s)) != lr:
            R.violation("C18:lroo-long" if lr > 255 else "C18:lroo", f"lroo({s.tolist()[:20]}...) = {int(lroo(s))}, longest run {lr}", {"series": s})
    # multi-pixel cube with an unsorted axis
    for it in range(spec["cubes"]):
        nt, ny, nx = int(rng.choice([4, 9, 30])), 2, 3
        cube = (rng.random((nt, ny, nx)) < 0.7).astype(np.int64)
        cube[nt // 2:, 0, 0] = 1
        time = pd.date_range("2010-01-01", periods=nt, freq="MS")
        perm = rng.permutation(nt)
        da = xr.DataArray(cube[perm], dims=["time", "y", "x"], coords={"time": time[perm]})
        got = da.hdc.algo.croo().values
        exp = np.array([[o_croo(cube[:, a, b].tolist()) for b in range(nx)] for a in range(ny)])
        R.evaluation()
        R.count("croo_cubes")
        if not np.array_equal(got, exp):
            R.violation("C18:croo", f"croo on a cube with shuffled time axis: {got.tolist()} vs {exp.tolist()}", {"cube": cube, "perm": perm})


def plan(tier, seed):
    q = tier == "quick"
    specs = [{"kind": "exhaustive", "lengths": [1, 2, 3, 4, 5, 6, 7, 8, 9, 10, 11, 12]}, {"kind": "exhaustive", "lengths": [13, 14]},
             {"kind": "exhaustive", "lengths": [15]}, {"kind": "exhaustive", "lengths": [16]}]
    for i in range(4 if q else 8):
        specs.append({"kind": "long", "sub": i, "random": 150 if q else 8000, "cubes": 12 if q else 300})
    for i in range(6 if q else 12):
        specs.append({"kind": "croo", "sub": i, "random": 12 if q else 400, "perms": 6 if q else 50, "cubes": 5 if q else 120,
                      "exhaustive_upto": (4 if q else 6) if i == 0 else 0, "max_perms": 720})
    return specs


def run_shard(spec, R):
    {"exhaustive": shard_exhaustive, "long": shard_long, "croo": shard_croo}[spec["kind"]](spec, R)


def finalize(agg, tier):
    c = agg["counters"]
    out = []
    if c.get("exhaustive_series", 0) != 131070:
        out.append(f"{c.get('exhaustive_series', 0)} of 131070 binary series enumerated")
    for k in ("long_series", "runs_beyond_255", "accessor_lroo_pixels", "accessor_runs_beyond_255", "croo_orders", "croo_cubes", "croo_series_exhaustive", "croo_runs_beyond_255", "croo_input_uint8"):
        if c.get(k, 0) == 0:
            out.append(f"monitor/class {k} never observed")
    return out


def replay(case, R):
    import pandas as pd
    import xarray as xr
    import hdc.algo  # noqa

    if "series" in case and "perm" not in case:
        s = np.asarray(case["series"], dtype=np.uint8)
        got, exp = int(lroo_k()(s)), o_lroo(s.tolist())
        R.evaluation()
        if got != exp:
            R.violation("C18:lroo-long" if s.size > 16 else "C18:lroo", f"lroo = {got}, longest run {exp}", case)
    elif "series" in case:
        s = np.asarray(case["series"])
        perm = np.asarray(case["perm"], dtype=int)
        time = pd.date_range("2000-01-01", periods=s.size, freq="10D")
        da = xr.DataArray(s[perm].reshape(-1, 1, 1).astype(np.int64), dims=["time", "y", "x"], coords={"time": time[perm]})
        got = int(da.hdc.algo.croo().values[0, 0])
        R.evaluation()
        if got != o_croo(s.tolist()):
            R.violation("C18:croo", f"croo = {got}, expected {o_croo(s.tolist())}", case)
    else:
        R.inconclusive_because("cube witness: re-run the shard")
