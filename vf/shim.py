"""Interpreted execution of a kernel's *unchanged code object* (state tap / C13 differential / exact arithmetic).

``source_func(kernel)`` finds the plain Python function behind ``@njit`` (``.py_func``) or ``lazycompile``
(``.__wrapped__``).  ``interp(kernel)`` re-binds its code object to patched globals so CPython can run it:

* Numba type names (``float64``, ``int16``, ``boolean`` ...) -> NumPy scalar types,
* ``np`` -> proxy whose ``round(a, 0, out)`` performs the C-style cast store Numba performs,
* ``numba`` -> proxy with ``prange = range``,
* optionally ``zeros`` -> exact ``Fraction`` object arrays (C01), or guard arrays recording indices (C14),
* callees stay compiled unless ``deep=True``.
"""

from __future__ import annotations

import copy
import sys
import types
from fractions import Fraction

import numpy as np


def source_func(kernel):
    if hasattr(kernel, "py_func"):
        return kernel.py_func
    f = getattr(kernel, "__wrapped__", None)
    if f is not None:
        if hasattr(f, "py_func"):
            return f.py_func
        return f
    if isinstance(kernel, types.FunctionType):
        return kernel
    raise TypeError(f"no python source reachable for {kernel!r}")


class NpProxy:
    """Forwards to numpy, except for the out= form of round used to store float64 into int16."""

    def __init__(self, overrides=None):
        self._ov = overrides or {}

    def __getattr__(self, name):
        if name in self._ov:
            return self._ov[name]
        return getattr(np, name)

    @staticmethod
    def round(a, decimals=0, out=None):
        r = np.round(np.asarray(a), decimals)
        if out is None:
            return r
        if out.dtype.kind in "iu" and r.dtype.kind == "f":
            with np.errstate(invalid="ignore", over="ignore"):
                out[...] = r.astype(out.dtype)
        else:
            out[...] = r
        return out


class NumbaProxy:
    def __init__(self):
        import numba

        self._n = numba

    def __getattr__(self, name):
        if name == "prange":
            return range
        return getattr(self._n, name)


def frac_zeros(shape, dtype=None):
    a = np.empty(shape, dtype=object)
    a[...] = Fraction(0)
    return a


def _map_numba_type(v):
    from numba.core import types as nt

    if isinstance(v, nt.Boolean):
        return np.bool_
    try:
        return np.dtype(str(v)).type
    except TypeError:
        return None


def interp(kernel, deep=False, zeros=None, extra_globals=None, _memo=None):
    """Return a CPython-runnable function sharing ``kernel``'s code object."""
    import numba
    from numba.core import types as nt

    f = source_func(kernel)
    _memo = {} if _memo is None else _memo
    if id(f) in _memo:
        return _memo[id(f)]
    g = dict(f.__globals__)
    ov = {}
    if zeros is not None:
        ov["zeros"] = zeros
    for name, val in list(g.items()):
        if isinstance(val, nt.Type):
            m = _map_numba_type(val)
            if m is not None:
                g[name] = m
        elif val is np:
            g[name] = NpProxy(ov)
        elif val is numba:
            g[name] = NumbaProxy()
        elif name == "zeros" and val is np.zeros and zeros is not None:
            g[name] = zeros
        elif name in ("jit", "njit", "guvectorize"):
            pass
    new = types.FunctionType(f.__code__, g, f.__name__, f.__defaults__, f.__closure__)
    new.__kwdefaults__ = f.__kwdefaults__
    _memo[id(f)] = new
    if deep:
        for name, val in list(g.items()):
            if hasattr(val, "py_func") or (hasattr(val, "__wrapped__") and isinstance(getattr(val, "__wrapped__"), types.FunctionType) and val.__module__.startswith("hdc.")):
                try:
                    g[name] = interp(val, deep=True, zeros=zeros, _memo=_memo)
                except TypeError:
                    pass
    if extra_globals:
        g.update(extra_globals)
    return new


def _snap(v):
    if isinstance(v, np.ndarray):
        return v.copy()
    if isinstance(v, (list, dict)):
        try:
            return copy.deepcopy(v)
        except Exception:
            return v
    return v


class Tap:
    """settrace state tap on one code object: locals at return, and (optionally) at chosen source lines.

    ``lines`` maps a *source fragment* to a list of local names; the fragment is located in the function's
    source and the locals are recorded every time execution *leaves* that line (i.e. when the next line event or
    the return event of the same frame arrives).
    """

    def __init__(self, func, at_return=None, lines=None):
        import inspect

        self.code = func.__code__
        self.at_return = at_return
        self.ret = []  # one dict per invocation
        self.events = []  # (tag, dict)
        self._watch = {}
        if lines:
            src, start = inspect.getsourcelines(source_func(func) if not isinstance(func, types.FunctionType) else func)
            for frags, names in lines.items():
                # a key may be a tuple of alternative fragments: the first one found exactly once is used
                alts = frags if isinstance(frags, tuple) else (frags,)
                for frag in alts:
                    hits = [i for i, ln in enumerate(src) if frag in ln]
                    if len(hits) == 1:
                        self._watch[start + hits[0]] = (frag, names)
                        break
                else:
                    raise ValueError(f"none of the fragments {alts!r} found exactly once in {func.__name__}")
        self._prev_line = {}

    def _local(self, frame, event, arg):
        if event == "line" and self._watch:
            pl = self._prev_line.get(id(frame))
            if pl in self._watch:
                frag, names = self._watch[pl]
                loc = frame.f_locals
                self.events.append((frag, {n: _snap(loc.get(n)) for n in names}))
            self._prev_line[id(frame)] = frame.f_lineno
        elif event == "return":
            pl = self._prev_line.pop(id(frame), None)
            loc = frame.f_locals
            if pl in self._watch:
                frag, names = self._watch[pl]
                self.events.append((frag, {n: _snap(loc.get(n)) for n in names}))
            if self.at_return is None:
                self.ret.append({k: _snap(v) for k, v in loc.items()})
            else:
                self.ret.append({k: _snap(loc.get(k)) for k in self.at_return})
        return self._local

    def _global(self, frame, event, arg):
        if event == "call" and frame.f_code is self.code:
            frame.f_trace_lines = bool(self._watch)
            return self._local
        return None

    def __enter__(self):
        self._old = sys.gettrace()
        sys.settrace(self._global)
        return self

    def __exit__(self, *exc):
        sys.settrace(self._old)
        return False


class GuardArray(np.ndarray):
    """ndarray that records, per array, the integer indices used (min / max / negatives) and written cells."""

    _log = None  # shared dict set by the harness: name -> stats

    def __new__(cls, arr, name="?"):
        o = np.asarray(arr).view(cls)
        o._gname = name
        return o

    def __array_finalize__(self, obj):
        self._gname = getattr(obj, "_gname", "?")

    def _note(self, idx, write):
        log = GuardArray._log
        if log is None:
            return
        st = log.setdefault(self._gname, {"min": None, "max": None, "neg": [], "oob": [], "writes": 0, "n": int(self.shape[0]) if self.ndim else 0})
        tup = idx if isinstance(idx, tuple) else (idx,)
        for ax, i in enumerate(tup):
            if isinstance(i, (int, np.integer)) and not isinstance(i, (bool, np.bool_)):
                i = int(i)
                if ax < self.ndim:
                    n = self.shape[ax]
                    if i < 0:
                        st["neg"].append(i)
                    if i >= n or i < -n:
                        st["oob"].append((i, n))
                if ax == 0:
                    st["min"] = i if st["min"] is None else min(st["min"], i)
                    st["max"] = i if st["max"] is None else max(st["max"], i)
        if write:
            st["writes"] += 1

    def __getitem__(self, idx):
        self._note(idx, False)
        r = super().__getitem__(idx)
        return r

    def __setitem__(self, idx, val):
        self._note(idx, True)
        super().__setitem__(idx, val)
