#!/bin/bash
# Offline set-up: third-party helpers for the monitors go into the git-ignored /verif/.deps
# (icontract: runtime contracts; mpmath: independent special functions; jsonschema: evidence validation).
set -e
HERE="$(cd "$(dirname "${BASH_SOURCE[0]}")" && pwd)"
PY="${VERIF_PY:-/venv/bin/python}"
WHEELS="${VERIF_WHEELS:-/opt/veriftools/wheels}"
mkdir -p "$HERE/.deps"
PIP_NO_INDEX=1 "$PY" -m pip install --quiet --no-index --find-links "$WHEELS" \
    --target "$HERE/.deps" --upgrade icontract mpmath jsonschema
"$PY" - <<EOF
import sys
sys.path.insert(0, "$HERE/.deps")
import icontract, mpmath, jsonschema
print("deps ok", icontract.__version__, mpmath.__version__, jsonschema.__version__)
EOF
